"""History salt and presentations shared by the monitors of the input-quantified
properties.  Realistic defects are often per-object or process-wide state that a
*different* query leaves behind (memo tables, aliased arrays, rewritten result
dictionaries), or bookkeeping taken from the raw text instead of the normalised
word.  `salt` makes a random handful of other legal calls on the live object
before the observed query; `present` re-spells the input the way a user may
type it (lower case, blanks, line breaks) - the constructor accepts that."""
import os
import shutil
import tempfile

SALTS = ["kappa_x_degenerate", "backend_moves", "phospho_kappa", "phospho_distribution", "kappa", "deltamax_perm", "pH_extremes", "compfile", "shuffle", "fractions_edit",
         "omega", "pI", "reduced", "profiles"]


CHEAP = ["pH_extremes", "compfile", "fractions_edit", "reduced", "profiles", "phospho_set_clear", "phospho_left_set"]


def salt(S, obj, seq, rng, rep, k=None, cheap=False):
    """Perform `k` (default 1-3) random legal calls on obj.  None of them may change what obj answers afterwards.
    cheap=True leaves out everything that needs a delta-max search (for long sequences)."""
    done = []
    for name in rng.sample(CHEAP if cheap else SALTS + ["phospho_set_clear", "phospho_left_set"], k or rng.randint(1, 3)):
        done.append(name)
        if name == "phospho_kappa" or name == "phospho_distribution":
            sty = [i + 1 for i, c in enumerate(seq) if c in "STY"]
            if not sty:
                continue
            obj.set_phosphosites(rng.sample(sty, min(len(sty), rng.randint(1, 3))))
            obj.get_kappa_after_phosphorylation()
            obj.get_phosphosequence()
            if name == "phospho_distribution":
                obj.get_full_phosphostatus_kappa_distribution()
            obj.clear_phosphosites()
        elif name == "phospho_left_set":
            # phosphosite annotation only feeds the phospho-queries; left in place it must not change any other answer
            sty = [i + 1 for i, c in enumerate(seq) if c in "STY"]
            if sty:
                obj.set_phosphosites(rng.sample(sty, min(len(sty), rng.randint(1, 4))))
        elif name == "phospho_set_clear":
            sty = [i + 1 for i, c in enumerate(seq) if c in "STY"]
            if sty:
                obj.set_phosphosites(rng.sample(sty, min(len(sty), 2)))
                obj.get_phosphosequence()
                obj.clear_phosphosites()
        elif name == "kappa_x_degenerate":
            # groupings that do not split the chain: both groups absent, one group covering every residue, one absent group
            present_ = sorted(set(seq))
            absent_ = [a for a in "ACDEFGHIKLMNPQRSTVWY" if a not in seq]
            try:
                if len(absent_) >= 2:
                    obj.get_kappa_X([absent_[0]], [absent_[1]])
                    obj.get_kappa_X(absent_[:1])
                obj.get_kappa_X(present_)
                if len(present_) >= 2:
                    obj.get_kappa_X(present_[:1], present_[1:])
            except Exception:
                pass
        elif name == "backend_moves":
            # the permutation moves the sampler uses return NEW objects; the parent must stay what it was
            so = obj.SeqObj
            n_ = len(seq)
            so.swapRes(rng.randrange(n_), rng.randrange(n_))
            so.swapRandChargeRes(set())
            so.full_shuffle(set())
            # the block and cluster moves may decline (too few charged residues) and retry until they find another delta,
            # which on some chains never happens: they run on a tape with a draw budget
            from .tapes import Shim, TapeExhausted, installed
            for mv in ("permute_block_swap", "permute_cluster_charges"):
                try:
                    with installed([S["seqmod"]], Shim("salt/%s/%s" % (mv, seq[:20]), budget=3000)):
                        getattr(so, mv)()
                except (Exception, TapeExhausted):
                    pass
        elif name == "kappa":
            obj.get_kappa()
        elif name == "deltamax_perm":
            obj.get_deltaMax(True)
        elif name == "pH_extremes":
            obj.get_FCR(pH=0)
            obj.get_NCPR(pH=14)
            obj.get_mean_net_charge(pH=0.0)
            obj.get_fraction_expanding(pH=7)
        elif name == "compfile":
            d = tempfile.mkdtemp(prefix="lcverif_salt_")
            try:
                obj.write_compfile(os.path.join(d, "comp.txt"))
            finally:
                shutil.rmtree(d, ignore_errors=True)
        elif name == "shuffle":
            # entries of `frozen` that are not positions (negative, beyond the end) are ignored by the library
            n_ = len(seq)
            frozen = rng.choice([None, None, [-1], {-1, -n_}, [n_ + 3], [0], list(range(0, n_, 2)), (n_ - 1,), {-2, 0, n_}])
            if frozen is None:
                obj.get_shuffled_sequence()
            else:
                rep.cnt("salt_shuffles_with_frozen_entries")
                obj.get_shuffled_sequence(frozen)
        elif name == "fractions_edit":
            # the caller owns the dictionary it was given
            d = obj.get_amino_acid_fractions()
            try:
                d["A"] = "edited by the caller"
                d.pop("W", None)
            except Exception:
                pass
        elif name == "omega":
            obj.get_Omega()
            obj.get_Omega_sequence()
        elif name == "pI":
            obj.get_isoelectric_point()
        elif name == "reduced":
            al = obj.get_reduced_alphabet_sequence(rng.choice([2, 8, 20]))[1]
            try:
                al.clear()
            except Exception:
                pass
        elif name == "profiles":
            w = min(len(seq), rng.choice([1, 5, 6]))
            obj.get_linear_NCPR(w)
            obj.get_linear_sequence_composition(w)
            obj.get_linear_FCR(w)
            obj.get_linear_sigma(w)
            obj.get_linear_hydropathy(w)
    rep.cnt("salted_objects")
    _sibling(S, seq, rep, cheap)
    return done


def _sibling(S, seq, rep, cheap):
    """Histories across TWO objects: between the construction of the observed object and the observed query another object
    - for the same text, its mirror image, a point variant or a rearrangement of it - is built and asked things (and is
    sometimes left with phosphosites set).  Nothing done to it may change what the observed object answers.  The choices
    come from a generator of their own (keyed by the sequence), so the random streams of the workloads stay what they were."""
    import random
    import zlib
    if not seq:
        return
    r2 = random.Random(zlib.crc32(seq.encode("ascii", "replace")) ^ 0x5151)
    if r2.random() >= 0.4:
        return
    kind = r2.choice(["same", "mirror", "point", "rearranged"])
    if kind == "same":
        s2 = seq
    elif kind == "mirror":
        s2 = seq[::-1]
    elif kind == "point":
        i = r2.randrange(len(seq))
        s2 = seq[:i] + r2.choice([a for a in "ACDEFGHIKLMNPQRSTVWY" if a != seq[i]]) + seq[i + 1:]
    else:
        l_ = list(seq)
        r2.shuffle(l_)
        s2 = "".join(l_)
    try:
        sib = S["SP"](s2)
        sib.get_FCR()
        sib.get_NCPR()
        sib.get_amino_acid_fractions()
        sib.get_mean_hydropathy()
        sib.get_linear_NCPR(min(len(s2), 5))
        sib.get_reduced_alphabet_sequence(r2.choice([2, 4, 8]))
        sty = [i + 1 for i, c in enumerate(s2) if c in "STY"]
        if sty:
            sib.set_phosphosites(r2.sample(sty, min(len(sty), 2)))
            sib.get_phosphosequence()
        if not cheap and len(s2) <= 60:
            sib.get_kappa()
            sib.get_deltaMax(True)
            sib.get_Omega()
            sib.get_SCD()
            sib.get_isoelectric_point()
            if sty:
                sib.get_kappa_after_phosphorylation()
        rep.cnt("salt_sibling_objects_" + kind)
    except Exception:
        # a sibling that cannot be built or asked (window longer than a two-residue chain ...) is not a verdict on anything
        rep.cnt("salt_sibling_calls_refused")


def present(rng, seq):
    """A spelling of `seq` that the constructor normalises back to `seq`."""
    out = []
    # sometimes exactly ONE residue type is typed in lower case (e.g. every proline: 'ApSpTK' is Ala-Pro-Ser-Pro-Thr-Lys)
    only = rng.choice(sorted(set(seq))) if seq and rng.random() < 0.2 else None
    if only is not None and "P" in seq and rng.random() < 0.5:
        only = "P"
    for c in seq:
        if only is not None:
            out.append(c.lower() if c == only else c)
            continue
        out.append(c.lower() if rng.random() < 0.3 else c)
        if rng.random() < (0.1 if only is None else 0.02):
            out.append(rng.choice([" ", "\n", "\t", "\r\n", "  "]))
    if rng.random() < 0.5:
        out.append("\n")
    return "".join(out)


_file_dir = {}


def from_file(S, seq, rng, rep):
    """The object a user gets who keeps the sequence in a file: FASTA or raw, wrapped, in blocks of ten, blocks separated by
    blank lines, with a terminal stop codon, numbered - all layouts the file reader documents.  The same path is re-used for
    different sequences (and sometimes the previous file ended in a stop codon)."""
    d = _file_dir.get("d")
    if d is None or not os.path.isdir(d):
        d = _file_dir["d"] = tempfile.mkdtemp(prefix="lcverif_files_")
        import atexit
        atexit.register(shutil.rmtree, d, True)
    width = rng.choice([60, 10, 80, 7, max(1, len(seq))])
    lines = [seq[i:i + width] for i in range(0, len(seq), width)]
    layout = rng.choice(["plain", "blocks", "blank_separated", "numbered"])
    if layout == "blocks":
        lines = [" ".join(l[i:i + 10] for i in range(0, len(l), 10)) for l in lines]
    elif layout == "blank_separated":
        lines = [x for l in lines for x in (l, "")]
    elif layout == "numbered":
        lines = ["%9d %s" % (i * width + 1, l) for i, l in enumerate(lines)]
    if rng.random() < 0.4:
        lines = [">sp|Q00000|TEST some protein"] + lines
    if rng.random() < 0.35:
        if rng.random() < 0.5:
            lines[-1 if lines[-1] else -2] += "*"
        else:
            lines.append("*")
    text = rng.choice(["\n", "\n", "\r\n"]).join(lines) + rng.choice(["\n", ""])
    if rng.random() < 0.7:
        text += "\n" * (-len(text) % 128)           # trailing blank lines up to a round size: many files of equal size
    path = os.path.join(d, rng.choice(["seq.fasta", "seq.fasta", "other.txt"]))
    with open(path, "w", newline="") as fh:
        fh.write(text)
    # the path keeps the time stamps of the first file written there (cp -p, rsync -t, archive extraction)
    times = _file_dir.setdefault("times", {})
    if path not in times:
        st_ = os.stat(path)
        times[path] = (st_.st_atime_ns, st_.st_mtime_ns)
    elif rng.random() < 0.6:
        os.utime(path, ns=times[path])
    rep.cnt("objects_built_from_files")
    return S["SP"](sequenceFile=path)


def make_object(S, seq, rng, rep, allow_backend=True):
    """An object for `seq` obtained the way different users obtain one: plain string, typed with blanks / line breaks /
    lower case, or a front-end handle around a backend object built from lower-/mixed-case text."""
    r = rng.random()
    if r < 0.42:
        return S["SP"](seq)
    if r < 0.5:
        return from_file(S, seq, rng, rep)
    if r < 0.6:
        # an object that went through pickle / copy (multiprocessing pools, caches on disk)
        import copy
        import pickle
        base = S["SP"](seq)
        if rng.random() < 0.5 and len(seq) <= 60:
            base.get_kappa()
        how = rng.choice(["pickle", "pickle2", "deepcopy", "copy", "backend_pickle"])
        rep.cnt("objects_restored_from_pickle_or_copy")
        if how == "pickle":
            return pickle.loads(pickle.dumps(base))
        if how == "pickle2":
            return pickle.loads(pickle.dumps(base, 2))
        if how == "deepcopy":
            return copy.deepcopy(base)
        if how == "copy":
            return copy.copy(base)
        return S["SP"](SeqObj=pickle.loads(pickle.dumps(base.SeqObj)))
    if r < 0.85 or not allow_backend:
        rep.cnt("objects_from_whitespace_lowercase_text")
        return S["SP"](present(rng, seq))
    rep.cnt("objects_around_backend_lowercase")
    mixed = "".join(c.lower() if rng.random() < 0.6 else c for c in seq)
    return S["SP"](SeqObj=S["Sequence"](mixed))


def default_shuffles_move_everything(S, rep, facet, context=""):
    """A shuffle with nothing frozen may move every position.  On a chain of 20 different residues each position keeps its
    residue in one shuffle with probability 1/20; that it does so in 12 shuffles in a row has probability 20 * 20**-12 < 1e-14.
    Positions that never move are frozen by something nobody passed (state left in a default argument, a class attribute)."""
    seq = "ACDEFGHIKLMNPQRSTVWY"
    still = set(range(20))
    o = S["SP"](seq)
    for _ in range(12):
        c = o.get_shuffled_sequence().get_sequence()
        if sorted(c) != sorted(seq):
            rep.viol(facet, "default shuffle of %s returned %s%s" % (seq, c, context), sig={"kind": "not_rearrangement"})
            return False
        still = {i for i in still if c[i] == seq[i]}
    rep.cnt("default_shuffle_mobility_checks")
    if still:
        rep.viol(facet, "positions %r of a fresh %s never moved in 12 shuffles with nothing frozen%s" % (sorted(still), seq, context),
                 sig={"kind": "immobile_positions"})
        return False
    return True
