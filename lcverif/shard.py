"""One shard of a check: drives every k-th case of the monitor's workload through
the real library under the contracts and writes its report as a pickle."""
import importlib
import os
import pickle
import sys
import time
import traceback

from . import sut as sutmod
from .report import Report


def sut_raised(tb):
    """True when the innermost frame of the traceback is library code."""
    frames = traceback.extract_tb(tb)
    if not frames:
        return False
    fn = os.path.realpath(frames[-1].filename)
    return fn.startswith(sutmod.REPO + os.sep)


def run_case(mod, case, rep, S):
    from .contracts import ContractBroken
    from .tapes import TapeExhausted
    rep.begin(case)
    try:
        mod.judge(case, rep, S)
    except ContractBroken as e:
        rep.viol("contract:" + e.name, e.detail, sig={"contract": e.name})
    except TapeExhausted as e:
        rep.viol("no_progress", "RNG draw budget exhausted outside a guarded call: %s" % (e,))
    except KeyboardInterrupt:
        raise
    except BaseException as e:
        tb = sys.exc_info()[2]
        text = "".join(traceback.format_exception(type(e), e, tb))[-1500:]
        if sut_raised(tb):
            rep.viol("sut_exception", "%s: %s\n%s" % (type(e).__name__, e, text),
                     sig={"exception": type(e).__name__})
        else:
            rep.inconclusive("harness error in %s: %s: %s" % (mod.ID, type(e).__name__, str(e)[:200]))
            rep.cnt("harness_errors")
            sys.stderr.write(text)


def main(argv):
    pid, tier, seed, idx, n, out = argv[0], argv[1], int(argv[2]), int(argv[3]), int(argv[4]), argv[5]
    try:
        # a library call that asks for an absurd amount of memory gets a MemoryError (reported like any other exception raised in
        # library code) instead of taking the shard down
        import resource
        lim = int(os.environ.get("LCVERIF_SHARD_AS_LIMIT_GB", "8")) << 30
        resource.setrlimit(resource.RLIMIT_AS, (lim, lim))
    except Exception:
        pass
    t0 = time.time()
    mod = importlib.import_module("lcverif.monitors." + pid.lower())
    S = sutmod.load()
    rep = Report(pid)
    if hasattr(mod, "setup"):
        mod.setup(S, tier, seed)
    budget = float(os.environ.get("LCVERIF_SHARD_BUDGET_S", "0") or 0)
    truncated = False
    early = []
    nrevisit = getattr(mod, "REVISIT", 24)
    for k, case in enumerate(mod.cases(tier, seed)):
        if ((k * 0x9E3779B1) >> 7) % n != idx:      # scatter, so periodic heavy cases do not pile up on one shard
            continue
        if budget and time.time() - t0 > budget:
            truncated = True
            break
        if len(early) < nrevisit:
            early.append(case)
        run_case(mod, case, rep, S)
    # the first cases of the shard are judged once more after everything else has run in this process: results
    # that depend on how many objects / compositions / calls came before (bounded caches, recycled slots,
    # counters) differ between the two visits
    if not truncated:
        for case in early[:max(0, min(len(early), rep.evaluations // 3))]:
            rep.cnt("revisited_cases")
            run_case(mod, case, rep, S)
    if hasattr(mod, "teardown"):
        mod.teardown(S)
    if truncated:
        rep.cnt("shards_truncated_by_time_budget")
    if sys.flags.optimize:
        rep.cnt("cases_repeated_under_python_O", rep.evaluations)
    from . import contracts
    for k, v in contracts.snapshot_counts().items():
        rep.cnt(k, v)
    d = rep.dump()
    d["wall_s"] = time.time() - t0
    with open(out + ".tmp", "wb") as fh:
        pickle.dump(d, fh)
    os.replace(out + ".tmp", out)


if __name__ == "__main__":
    main(sys.argv[1:])
