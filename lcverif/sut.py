"""Access to the system under test: the *real* localcider package imported from
the working tree named by VERIF_REPO (default /repo), with the online contracts
installed on the live classes.  Nothing here re-implements library behaviour."""
import os
import sys

REPO = os.path.realpath(os.environ.get("VERIF_REPO", "/repo"))
VERIF = os.path.dirname(os.path.dirname(os.path.abspath(__file__)))

_loaded = {}


def load(contracts=True):
    """Import localcider from REPO (asserting that is where it came from)."""
    if _loaded:
        return _loaded
    if REPO not in sys.path:
        sys.path.insert(0, REPO)
    deps = os.path.join(VERIF, ".deps")
    if os.path.isdir(deps) and deps not in sys.path:
        sys.path.append(deps)
    os.environ.setdefault("MPLBACKEND", "Agg")
    import warnings
    warnings.simplefilter("ignore")
    import logging
    logging.getLogger("matplotlib").setLevel(logging.ERROR)
    logging.getLogger("matplotlib.font_manager").setLevel(logging.CRITICAL)
    import numpy as np
    np.seterr(all="raise" if os.environ.get("LCVERIF_NP_RAISE") == "1" else "ignore")
    import localcider
    where = os.path.realpath(localcider.__file__)
    if not where.startswith(REPO + os.sep):
        raise RuntimeError("localcider imported from %s, not from %s" % (where, REPO))
    from localcider.sequenceParameters import SequenceParameters
    from localcider.sequencePermutants import SequencePermutants
    from localcider.backend import sequence as seqmod
    from localcider.backend import wang_landau as wlmod
    from localcider.backend import seqfileparser as parsermod
    from localcider.backend import plotting as plottingmod
    from localcider import plots as plotsmod
    _loaded.update(dict(
        localcider=localcider, SP=SequenceParameters, SPerm=SequencePermutants,
        seqmod=seqmod, Sequence=seqmod.Sequence, wlmod=wlmod, parsermod=parsermod,
        plotting=plottingmod, plots=plotsmod, np=np, where=where))
    if contracts and os.environ.get("LCVERIF_NO_CONTRACTS") != "1":
        from . import contracts as C
        C.install(_loaded)
    return _loaded
