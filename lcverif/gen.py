"""Workload generators: sequence classes, exhaustive charge patterns and
compositions, spellings.  Everything is a deterministic function of the
random.Random handed in."""
import itertools
import math
import random

from .refmodel import AA, POS, NEG, NEUTRALS

CLASSES = ("idp", "polyampholyte", "polyelectrolyte", "lowcomplexity", "hydrophobic",
           "uniform", "single", "short", "neutral_rich", "sty_rich", "titratable", "lookalike", "linker")

# legal protein words that read like something else: nucleotide strings (A, C, G, T and the IUPAC ambiguity letters that are
# also residues), open reading frames, DSSP / secondary-structure strings, hexadecimal-looking words
LOOKALIKE_ALPHABETS = ["ACGT", "ACGT", "ACG", "ACGTN", "ACGTRYKMSWDHVN", "HEC", "HEGTSC", "ACDEF", "ATGC"]
LOOKALIKE_WORDS = ["GATTACA", "ACGT", "TGCA", "GATTACAGATTACA", "GATTACAGCTGATTACAGCTG", "ATGGAAGAAGAAGCAGGTAAAAAAAAATGA", "ATGGCCTGA",
                   "ATGAAATAA", "ATGGCAGCATAG", "TATAAT", "CAGCAGCAGCAGCAGCAGCAGCAGCAGCAG", "HHHHHHEEEEEECCCCCC", "DEADFACE", "ACCGGTTAACCGGTTAACCGGTT",
                   "FASTA", "MKVLAGFASTA", "SEQFASTA", "PIR", "GCG", "CSV", "MKTPDF", "DATCSV", "READMEMD", "PNG", "SEQ", "TSV"]

_WEIGHTS = {
    "idp": "DDEEEKKKRSSSGGPPQQTANH",
    "polyampholyte": "KREDKE",
    "hydrophobic": "AVILMFWYCGTS" + "AVIL" * 2 + "KE",
    "uniform": AA,
    "neutral_rich": NEUTRALS * 3 + "KRDE",
    "sty_rich": "SSSTTTYYY" + "GKEDRAP",
    "titratable": "KRHDECY" * 3 + "GSA",
}


def loglen(rng, lo, hi):
    return int(round(math.exp(rng.uniform(math.log(lo), math.log(hi + 0.999)))))


def rand_seq(rng, cls=None, lo=1, hi=400):
    cls = cls or rng.choice(CLASSES)
    if cls == "short":
        n = rng.randint(1, 7)
        return "".join(rng.choice(AA if rng.random() < 0.5 else "KEDRGS") for _ in range(n))
    n = max(lo, min(hi, loglen(rng, max(lo, 1), hi)))
    if cls == "single":
        return rng.choice(AA) * n
    if cls == "linker":
        # two charged patches joined by a long charge-free linker (GS-, elastin-like, poly-Q constructs)
        unit = rng.choice(["GS", "GGS", "Q", "VPGVG", "GSAT", "P", "N"])
        arm = lambda: "".join(rng.choice(rng.choice(["K", "E", "KR", "DE", "KE"])) for _ in range(rng.randint(1, 8)))
        a1, a2 = arm(), arm()
        span = rng.choice([rng.randint(5, 60), rng.randint(90, 130), rng.randint(100, 400)])
        room = hi - len(a1) - len(a2)
        if room < 1:
            return (a1 + a2)[:max(1, hi)]
        span = max(1, lo - len(a1) - len(a2), min(span, room))
        link = (unit * (span // len(unit) + 1))[:span]
        return a1 + link + a2
    if cls == "lookalike":
        if rng.random() < 0.4:
            return rng.choice(LOOKALIKE_WORDS)
        letters = rng.choice(LOOKALIKE_ALPHABETS)
        body = list(letters) + [rng.choice(letters) for _ in range(max(0, n - len(letters)))]   # every letter present
        rng.shuffle(body)
        if letters in ("ACGT", "ATGC") and rng.random() < 0.3:
            # an open reading frame: ATG ... stop, whole codons
            core = "".join(body)[:max(0, 3 * ((len(body) - 6) // 3))]
            return "ATG" + core + rng.choice(["TAA", "TAG", "TGA"])
        return "".join(body)
    if cls == "polyelectrolyte":
        letters = rng.choice(["KR", "DE", "K", "E", "R", "D"]) + rng.choice(["", "G", "GS", "GSPQ"])
        return "".join(rng.choice(letters) for _ in range(n))
    if cls == "lowcomplexity":
        k = rng.randint(2, 3)
        letters = rng.sample(AA, k)
        out = []
        while len(out) < n:
            out.extend(rng.choice(letters) * rng.randint(1, 8))
        return "".join(out[:n])
    letters = _WEIGHTS[cls]
    return "".join(rng.choice(letters) for _ in range(n))


def spell(rng, pat, pos=POS, neg=NEG, neut=NEUTRALS):
    """Realise a charge pattern as an amino-acid string with a random spelling."""
    return "".join(rng.choice(pos) if q > 0 else (rng.choice(neg) if q < 0 else rng.choice(neut)) for q in pat)


def spell_plain(pat):
    return "".join("K" if q > 0 else ("E" if q < 0 else "G") for q in pat)


def respell(rng, seq):
    """Random same-charge-class substitution at every position."""
    out = []
    for c in seq:
        if c in POS:
            out.append(rng.choice(POS))
        elif c in NEG:
            out.append(rng.choice(NEG))
        else:
            out.append(rng.choice(NEUTRALS))
    return "".join(out)


def permute(rng, seq):
    l = list(seq)
    rng.shuffle(l)
    return "".join(l)


def all_patterns(L):
    return itertools.product((1, -1, 0), repeat=L)


def compositions(N):
    """All (p, n, z) with p+n+z == N."""
    for p in range(N + 1):
        for n in range(N - p + 1):
            yield p, n, N - p - n


def sub_rng(seed, *names):
    return random.Random("|".join(str(x) for x in (seed,) + names))


def near_threshold_compositions(N):
    """(n+, n-) pairs whose FCR lies within one residue of 1/4 or 7/20, or whose |NCPR| lies within one residue of
    7/20 - the compositions where an inexact threshold or a rounded fraction changes the diagram-of-states region."""
    from fractions import Fraction
    seen = set()
    for t in (Fraction(1, 4), Fraction(7, 20)):
        c0 = int(t * N)
        for tot in (c0 - 1, c0, c0 + 1):
            if 0 <= tot <= N:
                for a in sorted({0, tot, tot // 2, (tot * 7) // 10, tot // 5}):
                    seen.add((a, tot - a))
    d0 = int(Fraction(7, 20) * N)
    for diff in (d0 - 1, d0, d0 + 1):
        for minor in (0, 1, 2, (N - diff) // 4, (N - diff) // 2):
            if diff >= 0 and minor >= 0 and diff + 2 * minor <= N:
                seen.add((diff + minor, minor))
                seen.add((minor, diff + minor))
    return sorted(seen)


def distinct_compositions(rng, count, nmin=10, nmax=30):
    """`count` distinct (p, n, z) with nmin <= N <= nmax, in a random order."""
    seen = []
    got = set()
    guard = 0
    while len(seen) < count and guard < 100 * count:
        guard += 1
        N = rng.randint(nmin, nmax)
        p = rng.randint(0, N)
        n = rng.randint(0, N - p)
        c = (p, n, N - p - n)
        if c not in got:
            got.add(c)
            seen.append(c)
    return seen


# valid one-letter sequences that happen to spell three-letter residue codes, file names or number-like words
CODE_WORDS = ["ALA", "MET", "ARG", "SER", "LYSLYS", "GLYGLY", "ASPARGLYS", "METSERLYS", "LYSARGLYS", "GLYSERGLYSER", "HISTHRVALALA",
              "TYRILEPHEASN", "ARGASPLYSGLYSERASPARGALALYSASP", "ALAGLY", "METHIS", "NAN", "INF", "GSPGRGLYS", "LAA", "GYLAAL"] + LOOKALIKE_WORDS


# strings a user may pass as a GROUP of residues that also read as words (names of residue classes, keywords): a string
# group is the set of its letters, whatever it spells
GROUP_WORDS = ["CHARGED", "ACIDIC", "ALIPHATIC", "NEGATIVE", "TINY", "SMALL", "LARGE", "ALL", "ANY", "HELICAL", "STRAND", "KEY", "NET",
               "PHE", "ASP", "GLY", "MET", "HIS", "ALA", "TRP", "NAN"]
