"""Pristine-fork reference evaluator.

A zygote process is forked from the shard right after the library has been
imported and before any library call has been made.  For every reference
evaluation the zygote forks a child that constructs the object, performs one
call, sends the (canonicalised) result back and exits.  The child therefore has
seen no history at all - not in the object, not in module-level tables, not in
default-argument objects.  Cost: a few milliseconds per reference."""
import os
import pickle
import struct


def _read_exact(fd, n):
    chunks = []
    while n:
        b = os.read(fd, n)
        if not b:
            raise EOFError
        chunks.append(b)
        n -= len(b)
    return b"".join(chunks)


def _read_all(fd):
    chunks = []
    while True:
        b = os.read(fd, 1 << 16)
        if not b:
            break
        chunks.append(b)
    return b"".join(chunks)


def _write_all(fd, data):
    while data:
        n = os.write(fd, data)
        data = data[n:]


class Zygote:
    def __init__(self, evaluate):
        """`evaluate(request) -> picklable` is run inside a fresh grandchild."""
        self.evaluate = evaluate
        r1, w1 = os.pipe()
        r2, w2 = os.pipe()
        pid = os.fork()
        if pid == 0:
            try:
                os.close(w1)
                os.close(r2)
                self._serve(r1, w2)
            finally:
                os._exit(0)
        os.close(r1)
        os.close(w2)
        self.pid = pid
        self.w = w1
        self.r = r2
        self.calls = 0

    def _serve(self, rfd, wfd):
        while True:
            try:
                n = struct.unpack("I", _read_exact(rfd, 4))[0]
                req = pickle.loads(_read_exact(rfd, n))
            except EOFError:
                return
            cr, cw = os.pipe()
            pid = os.fork()
            if pid == 0:
                try:
                    os.close(cr)
                    try:
                        res = ("ok", self.evaluate(req))
                    except BaseException as e:        # includes contract failures
                        res = ("raised", type(e).__name__)
                    try:
                        data = pickle.dumps(res)
                    except Exception as e:
                        data = pickle.dumps(("unpicklable", repr(res)[:500]))
                    _write_all(cw, data)
                finally:
                    os._exit(0)
            os.close(cw)
            data = _read_all(cr)
            os.close(cr)
            os.waitpid(pid, 0)
            _write_all(wfd, struct.pack("I", len(data)) + data)

    def ask(self, req):
        data = pickle.dumps(req)
        _write_all(self.w, struct.pack("I", len(data)) + data)
        n = struct.unpack("I", _read_exact(self.r, 4))[0]
        self.calls += 1
        if n == 0:
            return ("died", None)
        return pickle.loads(_read_exact(self.r, n))

    def close(self):
        try:
            os.close(self.w)
            os.close(self.r)
            os.waitpid(self.pid, 0)
        except Exception:
            pass
