"""Check runner: fans a monitor's workload out over shard subprocesses, merges
what they observed, matches violations against the committed known findings,
writes the evidence file and gives the three-valued verdict.

  exit 0  held on everything observed (KNOWN-FINDING lines may be printed)
  exit 1  VIOLATION property=<id> replay=<path>
  exit 2  INCONCLUSIVE property=<id> reason=...
"""
import argparse
import importlib
import json
import os
import pickle
import shutil
import subprocess
import sys
import tempfile
import time

from . import report as R

VERIF = os.path.dirname(os.path.dirname(os.path.abspath(__file__)))
KF_FILE = os.path.join(VERIF, "known_findings.json")


def load_findings(pid):
    try:
        with open(KF_FILE) as fh:
            data = json.load(fh)
    except FileNotFoundError:
        return []
    return [f for f in data.get("findings", []) if f.get("property") == pid and f.get("status", "open") == "open"]


def finding_matches(f, v):
    if f.get("facet") != v.get("facet"):
        return False
    sig = v.get("sig") or {}
    for k, want in (f.get("match") or {}).items():
        got = sig.get(k)
        if isinstance(want, list):
            if got not in want:
                return False
        elif got != want:
            return False
    return True


def classify(pid, violations):
    findings = load_findings(pid)
    known = {}
    fresh = []
    for v in violations:
        hit = None
        for f in findings:
            if finding_matches(f, v):
                hit = f
                break
        if hit is None:
            fresh.append(v)
        else:
            known.setdefault(hit["id"], {"finding": hit, "hits": []})["hits"].append(v)
    return known, fresh


def write_replays(pid, fresh, limit=12):
    d = os.path.join(os.environ.get("LCVERIF_REPLAY_DIR") or os.path.join(VERIF, "replays"), pid)
    shutil.rmtree(d, ignore_errors=True)
    os.makedirs(d, exist_ok=True)
    out = []
    seen_facets = {}
    for v in fresh:
        k = seen_facets.get(v["facet"], 0)
        if k >= 3 or len(out) >= limit:
            continue
        seen_facets[v["facet"]] = k + 1
        safe = "".join(c if c.isalnum() else "_" for c in v["facet"])[:40]
        path = os.path.join(d, "%s_%d.json" % (safe, k))
        with open(path, "w") as fh:
            json.dump(v, fh, indent=1)
        out.append((path, v))
    return out


def shard_env():
    env = dict(os.environ)
    pp = [VERIF, os.path.join(VERIF, ".deps")]
    env["PYTHONPATH"] = os.pathsep.join(pp)
    env["PYTHONDONTWRITEBYTECODE"] = "1"
    env["PYTHONHASHSEED"] = "0"
    env["MPLBACKEND"] = "Agg"
    env["LOCALCIDER_VERIF"] = "1"
    env.setdefault("OMP_NUM_THREADS", "1")
    env.setdefault("OPENBLAS_NUM_THREADS", "1")
    env.setdefault("MKL_NUM_THREADS", "1")
    return env


ENVIRONMENT_ASSUMPTIONS = [
    "environment driven: CPython of /venv, string-hash seed varied per shard, one extra shard under `python -O`; where a check "
    "says so also concurrent threads (each with objects of its own) and a jumping wall clock",
    "environment NOT driven, by decision: warning filters that turn warnings into errors, a numpy error state or decimal context "
    "changed by the caller (the unchanged sampler itself relies on numpy's default 0/0 -> nan in its flat check), absence of a "
    "declared dependency (numpy, scipy, matplotlib, BioPython) or another version of one, one object shared between threads "
    "(the unchanged delta-max search publishes intermediate values on the object), str subclasses with their own __str__",
]


def run_shards(pid, tier, seed, nshards, watchdog):
    tmp = tempfile.mkdtemp(prefix="lcverif_%s_" % pid)
    procs = []
    env = shard_env()
    for i in range(nshards):
        # string-hash randomisation differs from shard to shard (iteration order of sets / dicts of strings is
        # part of the environment a user may have); the value is recorded with every violation for replay
        env["PYTHONHASHSEED"] = str((seed * 131 + i * 7) % 4294967295) if i else "0"
        out = os.path.join(tmp, "shard%d.pkl" % i)
        log = open(os.path.join(tmp, "shard%d.log" % i), "wb")
        p = subprocess.Popen([sys.executable, "-W", "ignore", "-m", "lcverif.shard", pid, tier, str(seed),
                              str(i), str(nshards), out], cwd=VERIF, env=env, stdout=log, stderr=subprocess.STDOUT)
        procs.append((p, out, log))
    # one more process repeats the cases of one regular shard (a different one per seed) under `python -O`: assert
    # statements and `if __debug__:` blocks are stripped there, which is an interpreter mode users do run; the
    # contracts are installed with enabled=True and stay on
    i = nshards
    env["PYTHONHASHSEED"] = "0"
    out = os.path.join(tmp, "shard%d.pkl" % i)
    log = open(os.path.join(tmp, "shard%d.log" % i), "wb")
    p = subprocess.Popen([sys.executable, "-O", "-W", "ignore", "-m", "lcverif.shard", pid, tier, str(seed),
                          str(seed % nshards), str(nshards), out], cwd=VERIF, env=env, stdout=log, stderr=subprocess.STDOUT)
    procs.append((p, out, log))
    deadline = time.time() + watchdog
    dumps, problems = [], []
    for i, (p, out, log) in enumerate(procs):
        left = max(1.0, deadline - time.time())
        try:
            rc = p.wait(timeout=left)
        except subprocess.TimeoutExpired:
            p.kill()
            p.wait()
            problems.append("shard %d exceeded the wall-clock watchdog (%ds)" % (i, watchdog))
            log.close()
            continue
        log.close()
        if rc != 0 or not os.path.exists(out):
            tail = ""
            try:
                with open(os.path.join(tmp, "shard%d.log" % i), "rb") as fh:
                    tail = fh.read()[-1200:].decode("utf8", "replace")
            except Exception:
                pass
            problems.append("shard %d died (rc=%s): %s" % (i, rc, tail.strip().splitlines()[-1] if tail.strip() else ""))
            sys.stderr.write(tail + "\n")
            continue
        with open(out, "rb") as fh:
            dumps.append(pickle.load(fh))
    shutil.rmtree(tmp, ignore_errors=True)
    return dumps, problems


def main(argv=None):
    ap = argparse.ArgumentParser()
    ap.add_argument("pid")
    ap.add_argument("--tier", default=os.environ.get("VERIF_TIER") or "quick", choices=["quick", "thorough"])
    ap.add_argument("--replay")
    ap.add_argument("--shards", type=int, default=0)
    args = ap.parse_args(argv)
    pid = args.pid.upper()
    seed = int(os.environ.get("VERIF_SEED", "0") or 0)
    mod = importlib.import_module("lcverif.monitors." + pid.lower())

    if args.replay:
        return replay(mod, pid, args.replay)

    t0 = time.time()
    nshards = args.shards or min(16, os.cpu_count() or 4, getattr(mod, "MAX_SHARDS", 16))
    watchdog = getattr(mod, "WATCHDOG", {"quick": 900, "thorough": 6 * 3600})[args.tier]
    dumps, problems = run_shards(pid, args.tier, seed, nshards, watchdog)
    merged = R.merge(dumps, pid)
    notes = list(merged["notes"]) + problems
    counters = merged["counters"]

    # a check whose deciding monitors observed nothing is inconclusive, never "held"
    for name in getattr(mod, "REQUIRED", {}).get(args.tier, getattr(mod, "REQUIRED", {}).get("all", [])):
        if counters.get(name, 0) <= 0:
            notes.append("required observation never made: %s" % name)
    if hasattr(mod, "finalize"):
        notes.extend(mod.finalize(merged, args.tier) or [])
    if merged["evaluations"] == 0:
        notes.append("no case was evaluated")

    known, fresh = classify(pid, merged["violations"])
    # violations beyond the per-shard cap were counted but not kept: they cannot be classified
    unkept = merged["nviol"] - len(merged["violations"])
    wall = time.time() - t0

    for fid, rec in sorted(known.items()):
        ex = rec["hits"][0]
        print("KNOWN-FINDING: property=%s %s [%s; observed %d time(s) in this run, e.g. %s]" % (
            pid, rec["finding"]["what"], fid, len(rec["hits"]), json.dumps(ex["case"])[:160]))

    replays = write_replays(pid, fresh)
    for path, v in replays:
        print("VIOLATION property=%s replay=%s" % (pid, path))
        print("  facet=%s detail=%s" % (v["facet"], v["detail"].replace("\n", " | ")[:400]))
    if fresh and len(fresh) > len(replays):
        print("  (%d further violating observations not written out)" % (len(fresh) - len(replays)))

    verdict = "violated" if fresh else ("inconclusive" if notes else "held")
    distinct = len(merged["nontrivial"])
    level = getattr(mod, "LEVEL", "exploration")
    cov = {
        "evaluations": int(merged["evaluations"]),
        "distinct_nontrivial": int(distinct),
        "rule": mod.RULE,
        "samples": merged["samples"][:8] or [{"note": "no sample recorded"}],
        "exhaustive": bool(getattr(mod, "EXHAUSTIVE", {}).get(args.tier, False)),
        "verdict": verdict,
        "observed": {k: int(v) for k, v in sorted(counters.items())},
        "shards": nshards,
        "shard_wall_s": [round(d.get("wall_s", 0.0), 1) for d in dumps],
        "shard_problems": problems,
        "inconclusive_reasons": notes,
        "known_findings_observed": {fid: len(rec["hits"]) for fid, rec in known.items()},
        "violating_observations": int(merged["nviol"]),
        "violating_observations_not_kept": int(unkept),
        "technique": getattr(mod, "TECHNIQUE", "runtime monitoring"),
        "repo": os.path.realpath(os.environ.get("VERIF_REPO", "/repo")),
    }
    if getattr(mod, "EXHAUSTIVE_NOTE", None):
        cov["exhaustive_scope"] = mod.EXHAUSTIVE_NOTE.get(args.tier, "")
    ev = {
        "property_id": pid, "tier": args.tier, "seed": seed, "level": level, "coverage": cov,
        "assumptions": list(getattr(mod, "ASSUMPTIONS", [])) + ENVIRONMENT_ASSUMPTIONS, "wall_s": round(wall, 2),
        "violations": len(fresh),
    }
    evdir = os.environ.get("LCVERIF_EVIDENCE_DIR") or os.path.join(VERIF, "evidence")
    os.makedirs(evdir, exist_ok=True)
    with open(os.path.join(evdir, pid + ".json"), "w") as fh:
        json.dump(ev, fh, indent=1, sort_keys=True)
        fh.write("\n")

    interesting = {k: v for k, v in sorted(counters.items()) if not k.startswith("contract_full")}
    print("%s tier=%s seed=%d verdict=%s evaluations=%d distinct_nontrivial=%d wall=%.1fs" % (
        pid, args.tier, seed, verdict, merged["evaluations"], distinct, wall))
    print("  observed: " + ", ".join("%s=%d" % kv for kv in interesting.items()))
    if verdict == "violated":
        return 1
    if verdict == "inconclusive":
        for n in notes:
            print("INCONCLUSIVE property=%s reason=%s" % (pid, n.replace("\n", " ")[:300]))
        return 2
    return 0


def replay(mod, pid, path):
    from . import sut as sutmod
    from .shard import run_case
    with open(path) as fh:
        rec = json.load(fh)
    want_hs = str((rec.get("env") or {}).get("PYTHONHASHSEED", os.environ.get("PYTHONHASHSEED", "0")))
    want_opt = int((rec.get("env") or {}).get("python_optimize", 0) or 0)
    if (os.environ.get("PYTHONHASHSEED", "0") != want_hs or int(sys.flags.optimize) != want_opt) and os.environ.get("LCVERIF_REEXEC") != "1":
        env = dict(os.environ, PYTHONHASHSEED=want_hs, LCVERIF_REEXEC="1")
        return subprocess.call([sys.executable] + (["-O"] if want_opt else []) + ["-W", "ignore", "-m", "lcverif.runner", pid, "--replay", path], env=env)
    case = rec["case"] if "case" in rec and "facet" in rec else rec
    S = sutmod.load()
    if hasattr(mod, "setup"):
        mod.setup(S, "quick", 0)
    rep = R.Report(pid)
    run_case(mod, case, rep, S)
    if hasattr(mod, "teardown"):
        mod.teardown(S)
    known, fresh = classify(pid, rep.violations)
    for fid, recd in known.items():
        print("KNOWN-FINDING: property=%s %s [%s]" % (pid, recd["finding"]["what"], fid))
    for v in fresh:
        print("VIOLATION property=%s replay=%s" % (pid, path))
        print("  facet=%s detail=%s" % (v["facet"], v["detail"].replace("\n", " | ")[:600]))
    for n in rep.notes:
        print("INCONCLUSIVE property=%s reason=%s" % (pid, n))
    if fresh:
        return 1
    if rep.notes:
        return 2
    print("replay of %s: no violation reproduced" % path)
    return 0


if __name__ == "__main__":
    sys.exit(main())
