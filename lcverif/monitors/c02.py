"""C02 - get_delta() equals the Das-Pappu blob-averaged charge-asymmetry variance.

Oracle: exact-rational evaluation of the definition (refmodel.delta_exact) on the
charge pattern typed independently (K,R=+; D,E=-).  Workload: every charge
pattern up to a length bound realised with a random spelling, plus random
sequences of every class, all run through the real SequenceParameters."""
from .. import gen
from .. import refmodel as M
from ..tapes import Shim, installed
from .. import salt as SALT

ID = "C02"
LEVEL = "exploration"
TECHNIQUE = "runtime monitoring: reference-model oracle (exact rationals) on observed get_delta() results"
RULE = ("every charge pattern over {+,-,0} of length 1..Lmax (quick 11, thorough 13) spelled with random residues of "
        "each class, plus random sequences of all composition classes up to 400 residues and a few of 1000-1400 residues sharing both ends, through the real "
        "SequenceParameters(seq).get_delta(); distinct = distinct charge pattern; non-trivial = the pattern has a "
        "charged residue and length >= 5 (otherwise delta is 0 by definition)")
RULE += ("; added after the mutation rounds: objects obtained through a partly frozen shuffle, from lower-case / whitespace text and around a backend object; kappa asked before delta; every value asked twice; the first cases of every shard are judged again at its end")
RULE += ("; round 5: objects restored from pickle / copy / deepcopy; look-alike words (nucleotide strings, reading frames)")
RULE += ("; round 7: every composition of lengths 12-48 (thorough 72), one arrangement each")
RULE += ("; round 8: handles whose public SeqObj attribute is pointed at another backend object after a query; objects built from files")
RULE += ("; round 9: children of pair swaps of parents that have already answered (positions near the ends, either order); patterns written in the reduced charge alphabet behind a handle, and their shuffled copies")
EXHAUSTIVE = {"quick": False, "thorough": False}
EXHAUSTIVE_NOTE = {"quick": "charge patterns of length 1..11 enumerated completely (265,719)",
                   "thorough": "charge patterns of length 1..13 enumerated completely (2,391,483)"}
ASSUMPTIONS = [
    "charge classes K,R=+1, D,E=-1, everything else (incl. H) 0 as the statement says",
    "agreement is judged to 1e-12 absolute + 1e-9 relative of the exact rational value",
    "holds only on the inputs driven; nothing is claimed for inputs not generated",
]
REQUIRED = {"all": ["len_lt5", "len_eq5", "len_eq6", "net_negative", "net_zero", "net_positive", "uncharged",
                    "random_long", "longer_than_1000", "shuffled_objects", "salted_objects", "kappa_before_delta", "all_compositions_of_lengths_12_and_up", "handles_pointed_at_another_backend_object",
                    "pair_swap_children_of_queried_parents", "reduced_alphabet_objects"]}
LMAX = {"quick": 11, "thorough": 13}
NRANDOM = {"quick": 1500, "thorough": 20000}
NLONG = {"quick": 6, "thorough": 40}
ANCHORS = ["SEEEEEEKEEEEEEEEEEEE", "PLDKACAEDDDEEDEEEEEE", "EKKKKEE", "EKKKGE", "EEEEEEEEEEEEEEEEEEKG", "GKKKKG", "KEEEEK", "EKEKEKEKEKEKEKEKEKEKEKEKEKEKEKEKEKEKEKEKEKEKEKEKEK",
           "EEEEEEEEEEEEEEEEEEEEEEEEEKKKKKKKKKKKKKKKKKKKKKKKKK", "G", "K", "KKKKK", "KKKKKK", "EKGRD"]


def cases(tier, seed):
    for a in ANCHORS:
        yield {"k": "seq", "s": a}
        yield {"k": "seq", "s": a, "kappa_first": True}
    for w in gen.CODE_WORDS:
        yield {"k": "seq", "s": w}
    # weakly charged chains (a few charged residues, some of them within the first blob) of various lengths
    rng0 = gen.sub_rng(0, ID, "sparse")
    for j in range(40 if tier == "quick" else 400):
        n = rng0.randint(26, 200)
        body = [rng0.choice("GSQNAT") for _ in range(n)]
        for pos in sorted(set([rng0.randrange(0, 6) for _ in range(rng0.randint(1, 3))] + [rng0.randrange(n) for _ in range(rng0.randint(0, 2))])):
            body[pos] = rng0.choice("KRDE")
        yield {"k": "seq", "s": "".join(body)}
    for L in range(1, LMAX[tier] + 1):
        for pat in gen.all_patterns(L):
            yield {"k": "pat", "p": M.pat_str(pat)}
    # every composition (n+, n-, n0) of lengths 12 .. 48 (thorough 72), one random arrangement and spelling each
    rngc = gen.sub_rng(0, ID, "compositions")
    for N in range(12, (48 if tier == "quick" else 72) + 1):
        for p, n, z in gen.compositions(N):
            pat = [1] * p + [-1] * n + [0] * z
            rngc.shuffle(pat)
            yield {"k": "seq", "s": gen.spell(rngc, pat), "comp": 1}
    rng = gen.sub_rng(seed, ID, "random")
    # very long sequences that share their first and last residues but differ inside (process-wide memoisation
    # keyed on an abbreviated form of the sequence would confuse them)
    ends = gen.rand_seq(rng, "idp", lo=8, hi=8)
    longs = [ends + gen.rand_seq(rng, rng.choice(["idp", "polyampholyte", "uniform"]), lo=1001, hi=1400) + ends
             for j in range(NLONG[tier])]
    for j in range(0, len(longs), 3):
        # analysed one after another in ONE process (what a process-wide table keyed on an abbreviation would confuse)
        yield {"k": "longs", "seqs": longs[j:j + 3]}
    for i in range(NRANDOM[tier]):
        hi = 400 if i % 4 == 0 else 60
        yield {"k": "seq", "s": gen.rand_seq(rng, hi=hi)}


def judge(case, rep, S):
    if case["k"] == "longs":
        for s in case["seqs"] + case["seqs"][:1]:
            judge({"k": "seq", "s": s}, rep, S)
        return
    if case["k"] == "pat":
        pat = M.pat_from_str(case["p"])
        seq = gen.spell(gen.sub_rng(0, "spell", case["p"]), pat)
    else:
        seq = case["s"]
        pat = M.pattern(seq)
    if case["k"] == "seq" and len(seq) <= 400:
        obj = SALT.make_object(S, seq, gen.sub_rng(0, "make", seq), rep)
    else:
        obj = S["SP"](seq)
    salted = case["k"] == "seq" and (rep.evaluations % 4 == 0 or len(seq) <= 60 and rep.evaluations % 2 == 0)
    if case.get("comp") and rep.evaluations % 16:
        salted = False                      # the composition sweep is about delta itself; a sixteenth of it still gets the salt
    if salted and len(seq) <= 60:
        obj.get_kappa()                 # delta-max cached before delta is asked for
        rep.cnt("kappa_before_delta")
    if case.get("kappa_first"):
        obj.get_kappa()
        obj.get_deltaMax()
        rep.cnt("kappa_before_delta")
    if salted:
        SALT.salt(S, obj, seq, gen.sub_rng(0, "salt", seq), rep, cheap=len(seq) > 150)
    got = obj.get_delta()
    again = obj.get_delta()
    if not (again == got):
        rep.viol("delta_not_repeatable", "get_delta() answered %r and then %r on one object (%s)" % (got, again, seq[:80]))
    want = M.delta_exact(pat)
    L = len(pat)
    p, n, z = M.counts(pat)
    rep.cnt("len_lt5" if L < 5 else ("len_eq5" if L == 5 else ("len_eq6" if L == 6 else "len_gt6")))
    rep.cnt("net_negative" if p < n else ("net_zero" if p == n else "net_positive"))
    if p + n == 0:
        rep.cnt("uncharged")
    if L > 60:
        rep.cnt("random_long")
    if L > 1000:
        rep.cnt("longer_than_1000")
    if case.get("comp"):
        rep.cnt("all_compositions_of_lengths_12_and_up")
    if case["k"] == "pat":
        rep.cnt("patterns_len_%02d" % L)
    if p + n > 0 and L >= 5:
        rep.distinct(case.get("p") or M.pat_str(pat))
        if want != 0:
            rep.cnt("delta_nonzero")
    if rep.evaluations % 5000 == 1:
        rep.sample({"sequence": seq, "get_delta": got, "exact": str(want)})
    ok = False
    try:
        ok = M.close(float(got), float(want))
    except Exception:
        ok = False
    if not ok:
        rep.viol("delta_value", "get_delta(%s)=%r but the definition gives %s = %r" % (seq, got, want, float(want)),
                 sig={"L": L, "p": p, "n": n})
    if L < 5 and got != 0:
        rep.viol("short_sequence_nonzero", "length %d < 5 must give 0, got %r for %s" % (L, got, seq))
    if case["k"] == "seq" and 6 <= L <= 150 and rep.evaluations % 5 == 0:
        # a pair swap of the parent that has already answered (positions near either end, in either order): the child is an
        # object of ITS sequence
        rs = gen.sub_rng(0, "swapchild", seq)
        par = S["SP"](seq)
        par.get_delta()
        if rs.random() < 0.5:
            par.get_kappa()
        for _ in range(3):
            i_ = rs.choice([0, 1, 2, 3, 4, L - 1, L - 2, rs.randrange(L)])
            j_ = rs.randrange(L)
            ch = par.SeqObj.swapRes(i_, j_)
            cgot = S["SP"](SeqObj=ch).get_delta()
            cwant = M.delta_exact(M.pattern(ch.seq))
            rep.cnt("pair_swap_children_of_queried_parents")
            if sorted(ch.seq) != sorted(seq) or not M.close(float(cgot), float(cwant)):
                rep.viol("delta_value_shuffled_object", "swapRes(%d,%d) of %s (which had answered get_delta) gives %s with get_delta %r; the definition gives %r" % (
                    i_, j_, seq, ch.seq, cgot, float(cwant)), sig={"swap_child": True})
                break
    if case["k"] == "pat" and 6 <= L <= 11 and rep.evaluations % 40 == 0:
        # the same pattern written in the reduced charge alphabet the backend supports (+, -, 0), and a shuffled copy of it
        red = "".join("+" if q > 0 else ("-" if q < 0 else "0") for q in pat)
        ro = S["SP"](SeqObj=S["Sequence"](red))
        rgot_ = ro.get_delta()
        rep.cnt("reduced_alphabet_objects")
        if not M.close(float(rgot_), float(want)):
            rep.viol("delta_value_wrapped_backend_object", "Sequence(%r) behind a handle gives delta %r; the definition gives %r" % (red, rgot_, float(want)), sig={"reduced": True})
        else:
            rc = ro.get_shuffled_sequence()
            cs = rc.get_sequence()
            cpat = tuple(1 if c == "+" else (-1 if c == "-" else 0) for c in cs)
            if sorted(cs) != sorted(red) or not M.close(float(rc.get_delta()), float(M.delta_exact(cpat))):
                rep.viol("delta_value_shuffled_object", "shuffled copy %s of the reduced-alphabet object %s gives delta %r; the definition gives %r" % (
                    cs, red, rc.get_delta(), float(M.delta_exact(cpat))), sig={"reduced": True})
    if case["k"] == "seq" and 5 <= L <= 150 and rep.evaluations % 7 == 0:
        # the public SeqObj attribute of an already queried handle is pointed at another backend object (the library's own
        # get_permutant() builds its result that way): the handle then answers for that object
        other = gen.permute(gen.sub_rng(0, "repoint", seq), seq)
        obj.SeqObj = S["Sequence"](other)
        rgot = obj.get_delta()
        rwant = M.delta_exact(M.pattern(other))
        rep.cnt("handles_pointed_at_another_backend_object")
        if obj.get_sequence() != other or not M.close(float(rgot), float(rwant)):
            rep.viol("delta_value_wrapped_backend_object", "a handle that had answered for %s was given SeqObj = Sequence(%s): get_sequence %s, get_delta %r; the definition gives %r" % (
                seq, other, obj.get_sequence(), rgot, float(rwant)), sig={"repointed": True})
    if case["k"] == "seq" and L <= 150 and rep.evaluations % 3 == 0:
        # backend object built from lower-/mixed-case text (the backend upper-cases it) behind a front-end handle
        rngc = gen.sub_rng(0, "case", seq)
        mixed = "".join(c.lower() if rngc.random() < 0.6 else c for c in seq)
        wrapped = S["SP"](SeqObj=S["Sequence"](mixed))
        wgot = wrapped.get_delta()
        rep.cnt("backend_lowercase_objects")
        if wrapped.get_sequence() != seq or not M.close(float(wgot), float(want)):
            rep.viol("delta_value_wrapped_backend_object", "SequenceParameters(SeqObj=Sequence(%r)) reports sequence %s and delta %r; the definition gives %r" % (
                mixed, wrapped.get_sequence(), wgot, float(want)), sig={"L": L})
    # objects that reach the user by another route than the constructor: a (partly frozen) shuffle of the object
    if case["k"] == "seq" and 2 <= L <= 150:
        rng = gen.sub_rng(0, "shuffle", seq)
        frozen = sorted(set(rng.randrange(L) for _ in range(rng.randint(1, max(1, L // 2)))))
        with installed([S["seqmod"]], Shim("C02/" + seq[:20] + str(L))):
            child = obj.get_shuffled_sequence(rng.choice([set(frozen), list(frozen)]))
        cseq = child.get_sequence()
        cgot = child.get_delta()
        cwant = M.delta_exact(M.pattern(cseq))
        rep.cnt("shuffled_objects")
        if not M.close(float(cgot), float(cwant)):
            rep.viol("delta_value_shuffled_object", "get_delta() of the object returned by get_shuffled_sequence(%r) is %r, but its "
                     "sequence %s has delta %r" % (frozen, cgot, cseq, float(cwant)), sig={"L": L})
