"""C13 - sequence strings are normalised or rejected, never silently altered.

Oracle: normal form norm(s) = upper-case, whitespace (str.isspace) deleted;
accept iff s is a str, norm(s) is non-empty and a word over the 20 residues.  On
accept the object's sequence/length/len() are norm(s) and a battery of analyses
equals (bitwise) the same battery on a fresh object built from norm(s); on
reject any exception must be raised and no object produced."""
import random

from .. import gen
from .. import refmodel as M

ID = "C13"
LEVEL = "exploration"
TECHNIQUE = "runtime monitoring: normal-form acceptance model + differential analysis battery against the normalised word"
RULE = ("valid words with random letter case and whitespace injected at random positions (every str.isspace character); "
        "single-character injection of every ASCII code 0..127 and of a Unicode panel (digits, punctuation, BJOUXZ, "
        "look-alikes, characters whose upper() expands) at first/middle/last position, alone and together with "
        "whitespace; empty and blank strings; non-strings; distinct = distinct input string; non-trivial = all")
RULE += ("; added after the mutation rounds: FASTA-like and decorated strings; words spelling three-letter codes / file names, constructed in a directory holding files of those names; further non-strings (inf, numpy / Decimal NaN, objects with __str__, backend objects); the first cases of every shard are judged again at its end")
RULE += ("; round 5: every non-ASCII code point that a case mapping sends onto residue letters (all positions) and a quarter (thorough: all) of the ~1100 that compatibility normalisation does; look-alike words and alphabets")
RULE += ("; round 6: valid words wrapped in a pair of foreign characters (quotes, brackets, ...)")
RULE += ("; round 7: text-like objects that are not str (UserString, Bio.Seq, MutableSeq, memoryview, PurePath, iterator); URL / quoted-printable / HTML / C escape sequences; foreign characters after a line break")
RULE += ("; round 8: texts with 33-400 separate whitespace runs; a SequenceParameters object as argument")
RULE += ("; round 9: terminal-group labels, residue numbering and lone surrogates around / inside valid words")
EXHAUSTIVE = {"quick": False, "thorough": False}
EXHAUSTIVE_NOTE = {"quick": "ASCII 0..127 x 3 positions x 2 base words; every isspace character",
                   "thorough": "ASCII 0..127 x 3 positions x 6 base words; every isspace character"}
ASSUMPTIONS = [
    "warning filters that escalate warnings to errors are not part of the driven environment (a library may legitimately warn)",
    "whitespace = characters for which Python's str.isspace() is true; upper-casing = str.upper() (so a character such "
    "as U+00DF whose upper() is 'SS' normalises to two residues)",
    "str subclasses and objects with exotic __eq__ are not driven (statement silent)",
]
REQUIRED = {"all": ["accepted_valid", "accepted_with_whitespace", "accepted_lowercase", "rejected_invalid",
                    "rejected_invalid_with_whitespace", "rejected_blank", "rejected_non_string", "battery_compared", "lookalike_code_points", "words_wrapped_in_a_pair_of_foreign_characters", "escape_sequences_and_foreign_characters_after_line_breaks", "texts_with_more_than_32_whitespace_runs"]}
NVALID = {"quick": 1500, "thorough": 15000}
NBASE = {"quick": 2, "thorough": 6}
SPACES = [chr(i) for i in list(range(0, 0x3100)) if chr(i).isspace()]
UNICODE_PANEL = list("0123456789.,;:-_*#+!?()[]{}<>/\\|'\"`~^&%$@=") + list("BJOUXZbjouxz") + \
    ["А", "Е", "К", "Κ", "Α", "ß", "ﬁ", "ı", "Å", "é", "​",
     "﻿", "\u0000", "\u007f", "­", "Ａ", "\U0001d400", "①"]


def lookalike_code_points():
    """Non-ASCII code points that some case mapping or compatibility normalisation sends onto residue letters (KELVIN SIGN,
    dotted capital I, long s, ligatures, full-width / mathematical / circled letters ...).  The constructor is documented to
    upper-case with str.upper() and nothing else, so each of them is accepted exactly when its upper() spells residues."""
    import unicodedata
    aa = set("ACDEFGHIKLMNPQRSTVWY")
    fold, compat = [], []
    for cp in range(128, 0x110000):
        if 0xD800 <= cp <= 0xDFFF:
            continue
        c = chr(cp)
        forms = {c.upper(), c.lower(), c.casefold()}
        hit = False
        for f in forms:
            g = "".join(ch for ch in f if not unicodedata.combining(ch))
            if g and g != c and set(g.upper()) <= aa:
                hit = True
        if hit:
            fold.append(c)
            continue
        if unicodedata.decomposition(c):
            g = "".join(ch for ch in unicodedata.normalize("NFKD", c) if not unicodedata.combining(ch))
            if g and g != c and set(g.upper()) <= aa:
                compat.append(c)
    return fold, compat


NON_STRINGS = ["None", "0", "1", "1.5", "True", "False", "bytes", "bytearray", "list", "tuple", "dict", "object", "set",
               "list_empty", "nan", "inf", "np_nan", "np_inf32", "decimal_nan", "np_false", "str_method_object", "backend_sequence",
               "letters_list", "complex", "frontend_object", "userstring", "bio_seq", "bio_mutableseq", "bytes_like_memoryview", "pathlib_path", "str_iterator"]


def mk_nonstring(tag):
    return {"None": None, "0": 0, "1": 1, "1.5": 1.5, "True": True, "False": False, "bytes": b"ACDEF",
            "bytearray": bytearray(b"ACD"), "list": ["A", "C", "D"], "tuple": ("A", "C"), "dict": {"A": 1},
            "object": object(), "set": {"A"}, "list_empty": [], "nan": float("nan")}.get(tag, _more_nonstrings(tag))


class _Texty:
    def __str__(self):
        return "ACDEFGHIK"


def _more_nonstrings(tag):
    import decimal
    import numpy
    if tag == "inf":
        return float("inf")
    if tag == "np_nan":
        return numpy.float64("nan")
    if tag == "np_inf32":
        return numpy.float32("inf")
    if tag == "decimal_nan":
        return decimal.Decimal("NaN")
    if tag == "np_false":
        return numpy.False_
    if tag == "str_method_object":
        return _Texty()
    if tag == "backend_sequence":
        from lcverif import sut
        return sut.load()["Sequence"]("ACDEFGHIK")
    if tag == "letters_list":
        return list("ACDEF")
    if tag == "complex":
        return 1j
    if tag == "frontend_object":
        from lcverif import sut
        return sut.load()["SP"]("ACDEFGHIK")
    # objects that behave like text (upper(), iteration over one-letter strings) without being str
    if tag == "userstring":
        import collections
        return collections.UserString("ACDEFGHIK")
    if tag == "bio_seq":
        from Bio.Seq import Seq
        return Seq("ACDEFGHIK")
    if tag == "bio_mutableseq":
        from Bio.Seq import MutableSeq
        return MutableSeq("ACDEFGHIK")
    if tag == "bytes_like_memoryview":
        return memoryview(b"ACDEFGHIK")
    if tag == "pathlib_path":
        import pathlib
        return pathlib.PurePosixPath("ACDEFGHIK")
    if tag == "str_iterator":
        return iter("ACDEFGHIK")
    return None


def cases(tier, seed):
    rng = gen.sub_rng(seed, ID)
    for t in NON_STRINGS:
        yield {"ns": t}
    yield {"s": ""}
    for sp in SPACES:
        yield {"s": sp}
        yield {"s": sp * 3}
    yield {"s": " \t\n\r "}
    yield {"s": "".join(SPACES)}
    bases = ["MDVFMKGLSK", "ACDEFGHIKLMNPQRSTVWY", "K", "GS", "EKEKEKGGPPWW", "STYSTY"][:NBASE[tier]]
    for base in bases:
        for code in list(range(128)) + [ord(c) if len(c) == 1 else None for c in UNICODE_PANEL]:
            ch = chr(code) if code is not None else None
            if ch is None:
                continue
            for where in ("first", "middle", "last"):
                i = {"first": 0, "middle": len(base) // 2, "last": len(base)}[where]
                s = base[:i] + ch + base[i:]
                yield {"s": s}
                # the same together with whitespace elsewhere in the string
                sp = rng.choice(SPACES)
                j = rng.randint(0, len(s))
                yield {"s": s[:j] + sp + s[j:]}
    for ch in UNICODE_PANEL:
        if len(ch) > 1:
            yield {"s": "ACD" + ch + "EFG"}
    fold, compat = lookalike_code_points()
    for ch in fold:
        for base in bases[:2]:
            for i in (0, len(base) // 2, len(base)):
                yield {"s": base[:i] + ch + base[i:], "lookalike": 1}
        yield {"s": ch, "lookalike": 1}
        yield {"s": ch * 3 + " ", "lookalike": 1}
    for k, ch in enumerate(compat):
        if tier == "thorough" or k % 4 == seed % 4:
            yield {"s": "MDVF" + ch + "KGLSK", "lookalike": 1}
    for base in bases + gen.CODE_WORDS[:6]:
        for s in (base + "\n", base.lower() + "\n", base + "\r\n", "\n" + base, base + " ", base + "\t"):
            yield {"s": s}
    for w in gen.CODE_WORDS:
        yield {"s": w}
    # valid words that happen to spell three-letter codes, file names, English words: they are sequences like any other
    for w in ["ALA", "MET", "GLYGLY", "METSERLYS", "HISTHRVALALA", "TYRILEPHEASN", "SERMETLYS", "README", "LICENSE", "NEWS", "DATA",
              "CHANGES", "MAKEFILE", "FALSE", "NAN", "INF", "NIL", "PASS", "SELF", "ASP", "LYSARG"]:
        yield {"s": w, "cwd_files": True}
        yield {"s": w.lower()}
    # text pasted with a FASTA header or other record decoration: not a sequence string, must be rejected
    for base in bases:
        for s in (">" + base + "\n" + base, ">sp|P1|X\n" + base, " >hdr\n" + base + "\n", ">\n" + base, ">" + base + "\r\n" + base + "\n",
                  base + "\n>" + base, base + "*", base + "\n*", "1 " + base, base + " 10", ";" + base + "\n" + base):
            yield {"s": s}
    # a valid word wrapped in a PAIR of foreign characters (quoted / bracketed text pasted from a table, a JSON file, a shell):
    # one foreign character at each end is still foreign
    for base in bases + ["a", "NAN", "GS"]:
        for lq, rq in [('"', '"'), ("'", "'"), ("`", "`"), ("(", ")"), ("[", "]"), ("{", "}"), ("<", ">"), ("\u201c", "\u201d"), ("\u00ab", "\u00bb"),
                       ('"', "'"), ("*", "*"), ("-", "-"), (".", "."), ("|", "|"), ("b'", "'"), ("'", "',"), ("['", "']")]:
            for s in (lq + base + rq, " " + lq + base + rq + "\n", lq + base.lower() + rq, lq + " " + base + " " + rq):
                yield {"s": s, "wrapped": 1}
    # text broken into many pieces: dozens to hundreds of separate whitespace runs (blocks of ten, one residue per line)
    long_word = gen.rand_seq(rng, "uniform", lo=400, hi=400)
    for s in (" ".join(long_word[i:i + 10] for i in range(0, 400, 10)), "\n".join(long_word[:120]), "\t \n".join(long_word[:40]),
              " ".join(long_word[:33]), " ".join(long_word[:34]), "\r\n".join(long_word[i:i + 3] for i in range(0, 300, 3))):
        yield {"s": s, "runs": 1}
    # decorations of other notations around or inside a valid word: terminal-group labels of peptide chemistry, residue
    # numbering of database records, lone surrogates left by a lossy decode
    for base in bases[:2] + ["MKV"]:
        for s in ("Ac-" + base + "-NH2", "H-" + base + "-OH", base + "-NH2", "Ac-" + base, "NH2-" + base + "-COOH", "H2N-" + base, base + "-CONH2",
                  "1 " + base, base + " %d" % len(base), "1 " + base + " %d" % len(base), base[:2] + " " + base[2:] + " %d" % len(base),
                  "%d %s" % (1, base[:3]) + "\n%d %s" % (4, base[3:]), base + "\n//", "SQ " + base,
                  base[:3] + "\udc80" + base[3:], "\ud800" + base, base + "\udfff", base[:1] + "\udcff\udc80" + base[1:]):
            yield {"s": s, "escape": 1}
    # escape sequences of other formats inside (or instead of parts of) a valid word: URL / quoted-printable / HTML / C escapes
    # are several foreign characters, not blanks or residues
    for base in bases[:2] + ["MKD"]:
        for tok in ["%20", "%0A", "%0D", "%4B", "%4b", "%41%43", "+", "=20", "=0A", "&nbsp;", "&#75;", "&amp;", "\\n", "\\t", "\\x4b", "\\u004b", "<br>",
                    "<br/>", "\\", "^M", "\x1b[0m"]:
            i = len(base) // 2
            for s in (base[:i] + tok + base[i:], tok + base, base + tok, base[:i] + "\n" + tok + base[i:]):
                yield {"s": s, "escape": 1}
    # a foreign character AFTER a line break (multi-line text is checked as a whole, not line by line)
    for base in bases[:2]:
        for ch in "+-0*.1>xX#":
            for s in (base[:3] + "\n" + base[3:5] + ch + base[5:], base + "\n" + ch, base + "\r\n" + ch + base, "\n" + ch + base, base[:4] + "\n\n" + ch + "\n" + base[4:]):
                yield {"s": s, "escape": 1}
    for i in range(NVALID[tier]):
        w = gen.rand_seq(rng, hi=120 if i % 6 == 0 else 30)
        chars = []
        mode = i % 4
        for c in w:
            if mode in (1, 3) and rng.random() < 0.4:
                c = c.lower()
            chars.append(c)
        if mode in (2, 3):
            for _ in range(rng.randint(1, 6)):
                chars.insert(rng.randint(0, len(chars)), rng.choice(SPACES) * rng.randint(1, 2))
        yield {"s": "".join(chars)}


def norm(s):
    return "".join(c for c in s.upper() if not c.isspace())


def battery(obj, N):
    np_tolist = lambda a: [list(map(float, r)) for r in a]
    out = [
        obj.get_kappa(), obj.get_delta(), obj.get_deltaMax(), obj.get_FCR(), obj.get_NCPR(),
        obj.get_fraction_positive(), obj.get_fraction_negative(), obj.get_countPos(), obj.get_countNeg(),
        obj.get_countNeut(), obj.get_mean_hydropathy(), obj.get_uversky_hydropathy(), obj.get_WW_hydropathy(),
        obj.get_molecular_weight(), sorted(obj.get_amino_acid_fractions().items()), obj.get_phasePlotRegion(),
        obj.get_Omega(), obj.get_fraction_expanding(), obj.get_fraction_disorder_promoting(), obj.get_mean_net_charge(),
        obj.get_isoelectric_point(), obj.get_FCR(pH=7.0), obj.get_PPII_propensity(), obj.get_HTMLColorString(),
        obj.get_reduced_alphabet_sequence(4), obj.get_all_phosphorylatable_sites(), str(obj), obj.get_Omega_sequence(),
    ]
    if N <= 100:
        out.append(obj.get_SCD())
    w = min(5, N)
    out.append(np_tolist(obj.get_linear_NCPR(w)))
    out.append(np_tolist(obj.get_linear_hydropathy(w)))
    out.append(np_tolist(obj.get_linear_complexity(blobLen=w)))
    return out


def same(a, b):
    if isinstance(a, float) and isinstance(b, float):
        return a == b or (a != a and b != b)
    if isinstance(a, (list, tuple)) and isinstance(b, (list, tuple)):
        return len(a) == len(b) and all(same(x, y) for x, y in zip(a, b))
    return a == b


def judge_in_populated_cwd(case, rep, S):
    """The current directory holds files whose NAMES are valid sequences: a sequence string is never a file name."""
    import os
    import shutil
    import tempfile
    s = case["s"]
    d = tempfile.mkdtemp(prefix="lcverif_c13_")
    old = os.getcwd()
    try:
        for name in (s, s.lower(), "README", "LICENSE", "NEWS"):
            with open(os.path.join(d, name), "w") as fh:
                fh.write(">some record\nMKVLAAGIVGLLLAQWSHETNDRKPFYC\n")
        os.chdir(d)
        rep.cnt("constructed_in_cwd_with_sequence_named_files")
        try:
            obj = S["SP"](s)
            got = (obj.get_sequence(), obj.get_length(), len(obj), obj.get_FCR(), obj.get_molecular_weight())
        except Exception as e:
            rep.viol("valid_rejected", "%r is a valid word but was rejected with %s: %s (current directory holds a file of that name)" % (s, type(e).__name__, e))
            return
        ref = S["SP"]("".join(reversed(s)))        # same composition, not a file name
        want = (s, len(s), len(s), ref.get_FCR(), ref.get_molecular_weight())
        if got[:3] != want[:3] or not all(M.close(a, b) for a, b in zip(got[3:], want[3:])):
            rep.viol("not_normalised", "SequenceParameters(%r) in a directory holding a file of that name gives %r, expected %r" % (s, got, want))
    finally:
        os.chdir(old)
        shutil.rmtree(d, ignore_errors=True)


def judge(case, rep, S):
    SP = S["SP"]
    if "ns" in case:
        arg = mk_nonstring(case["ns"])
        for style in (0, 1):
            try:
                obj = SP(arg) if style == 0 else SP(sequence=arg)
            except Exception:
                rep.cnt("rejected_non_string")
            else:
                rep.viol("non_string_accepted", "SequenceParameters(%r) produced an object with sequence %r" % (arg, getattr(obj.SeqObj, "seq", None)),
                         sig={"type": case["ns"]})
        return
    s = case["s"]
    rep.distinct(s)
    if case.get("cwd_files"):
        return judge_in_populated_cwd(case, rep, S)
    n = norm(s)
    valid = len(n) > 0 and all(c in M.AA for c in n)
    if case.get("lookalike"):
        rep.cnt("lookalike_code_points")
    if case.get("runs"):
        rep.cnt("texts_with_more_than_32_whitespace_runs")
    if case.get("escape"):
        rep.cnt("escape_sequences_and_foreign_characters_after_line_breaks")
    if case.get("wrapped"):
        rep.cnt("words_wrapped_in_a_pair_of_foreign_characters")
    has_ws = any(c.isspace() for c in s)
    try:
        obj = SP(s) if len(s) % 2 else SP(sequence=s)
    except Exception as e:
        if valid:
            rep.viol("valid_rejected", "%r normalises to the valid word %r but was rejected with %s: %s" % (s, n, type(e).__name__, e))
        else:
            if len(n) == 0:
                rep.cnt("rejected_blank")
            else:
                rep.cnt("rejected_invalid")
                if has_ws:
                    rep.cnt("rejected_invalid_with_whitespace")
        return
    if not valid:
        rep.viol("invalid_accepted", "%r (normal form %r is %s) was accepted; object sequence %r" % (
            s, n, "empty" if not n else "not a word over the 20 residues", obj.get_sequence()),
            sig={"blank": len(n) == 0, "with_whitespace": has_ws})
        return
    rep.cnt("accepted_valid")
    if has_ws:
        rep.cnt("accepted_with_whitespace")
    if s != s.upper():
        rep.cnt("accepted_lowercase")
    got = (obj.get_sequence(), obj.get_length(), len(obj))
    if got != (n, len(n), len(n)):
        rep.viol("not_normalised", "%r: sequence/length/len = %r, expected (%r, %d, %d)" % (s, got, n, len(n), len(n)))
        return
    if s != n or rep.evaluations % 7 == 0:
        ref = SP(n)
        try:
            b1 = battery(obj, len(n))
        except Exception as e:
            rep.viol("analysis_differs", "an analysis of the object built from %r raised %s: %s" % (s, type(e).__name__, e))
            return
        b2 = battery(ref, len(n))
        rep.cnt("battery_compared")
        for i, (x, y) in enumerate(zip(b1, b2)):
            if not same(x, y):
                rep.viol("analysis_differs", "analysis #%d of the object built from %r is %r but %r for the normalised word %r" % (
                    i, s, x, y, n), sig={"index": i})
                break
    if rep.evaluations % 400 == 1:
        rep.sample({"input": s, "normal_form": n, "accepted": True})
