"""C01 - kappa is delta/deltaMax, lies in [0,1], and is -1 only when undefined.

Observed: get_kappa / get_delta / get_deltaMax on one live object, issued in
random order with repeats (cached and uncached delta-max paths).  Oracle:
(a) the relation among the three observed values (ratio, (1,1.1) clamp, -1 <=>
deltaMax == 0); (b) independent cross-check of delta and of deltaMax against the
reference models so a common factor cannot cancel; (c) range.  A pure range
failure (kappa >= 1.1 with everything else intact) is a known finding in three
regimes - see known_findings.json - and anything else is a violation."""
import itertools
import random

from .. import gen
from .. import refmodel as M

ID = "C01"
LEVEL = "exploration"
TECHNIQUE = ("runtime monitoring: relational oracle over observed get_kappa/get_delta/get_deltaMax events plus "
             "independent reference models; exhaustive-search maximisers fed to the real object")
RULE = ("for every composition of length <= Lc (quick 10, thorough 12) the delta-maximising arrangement found by "
        "exhaustive search (own enumerator), its reversal, inversion and 3 random arrangements; every charge pattern "
        "of length <= Lp (quick 9, thorough 11) with a random spelling; random class sequences (quick <=120, thorough "
        "<=400 residues); hill-climbed arrangements for compositions with >= 18 neutrals; anchors. distinct = distinct charge pattern; non-trivial = deltaMax != 0 (kappa defined)")
RULE += ("; added after the mutation rounds: ordered groups of compositions whose decimal digit strings coincide analysed one after another; long almost uncharged chains; the first cases of every shard are judged again at its end")
RULE += ("; round 7: minority blocks of 1-10 residues in majority runs 5-12 times longer with 0-2 neutrals; chains of more than 1000 residues sharing both ends")
RULE += ("; round 9: the delta-max permutant asked for at a random place among the other calls")
EXHAUSTIVE = {"quick": False, "thorough": False}
EXHAUSTIVE_NOTE = {"quick": "all patterns of length <= 9; maximisers of all compositions of length <= 10",
                   "thorough": "all patterns of length <= 11; maximisers of all compositions of length <= 12"}
ASSUMPTIONS = [
    "the ratio/clamp relation is judged on the three observed values themselves (same float division), so it is "
    "exact at the clamp edges; only the cross-checks against the reference models use a tolerance (1e-9 relative)",
    "the independent deltaMax reference is the documented candidate family (C03); the true maximum is searched "
    "exhaustively only up to the stated length",
    "kappa > 1 caused solely by the documented family under-estimating the true maximum is a recorded known "
    "finding in three regimes (no neutrals / one charge type / both charges with < 18 neutrals); in the >= 18 "
    "neutral regime it would be reported as a violation",
]
REQUIRED = {"all": ["longer_than_1000", "permutant_asked_among_the_calls", "minority_block_in_a_long_majority_run", "clamp_observed", "sentinel_observed", "ratio_in_unit_interval", "cached_dmax_path",
                    "maximiser_cases", "hill_climb_cases_ge18_neutrals", "ordered_composition_cases", "sweep_compositions", "unbalanced_composition_cases"]}
LC = {"quick": 10, "thorough": 12}
LP = {"quick": 9, "thorough": 11}
NRANDOM = {"quick": 1200, "thorough": 5000}
NCLIMB = {"quick": 32, "thorough": 400}
RANDOM_HI = {"quick": 120, "thorough": 400}
ANCHORS = ["EEEEEEEEEEEEEEEEEEKG", "KEEEEK", "EKKKKEE", "GKKKKG", "EKKKGE", "GGSGG", "K", "KKKKKK", "EK",
           "EKEKEKEKEKEKEKEKEKEKEKEKEKEKEKEKEKEKEKEKEKEKEKEKEK",
           "EEEEEEEEEEEEEEEEEEEEEEEEEKKKKKKKKKKKKKKKKKKKKKKKKK",
           "MDVFMKGLSKAKEGVVAAAEKTKQGVAEAAGKTKEGVLYVGSKTKEGVVHGVATVAEKTKEQVTNVGGAVVTGVTAVAQKTVEGAGSIAAATGFVKKDQLGKNEEGAPQEGILEDMPVDPDNEAYEMPSEEGYQDYEPEA",
           "GGGGGGGGGGGGGGGGGGGGKKKKEEEE", "GGGGGGGGGKKKKGGGGGGGGGGGEEEEGGG",
           "Q" * 239 + "K", "Q" * 120 + "E" + "Q" * 140, "S" * 200 + "K" + "S" * 250 + "E", "G" * 60 + "K", "N" * 399 + "D",
           "KKGGGGGK", "EKKGGKE", "EGGGGGE", "KGEEEEGGK"]


def cases(tier, seed):
    for a in ANCHORS:
        yield {"k": "seq", "s": a}
    for L in range(1, LC[tier] + 1):
        for p, n, z in gen.compositions(L):
            yield {"k": "maxcomp", "c": [p, n, z]}
    for L in range(1, LP[tier] + 1):
        for pat in gen.all_patterns(L):
            yield {"k": "pat", "p": M.pat_str(pat)}
    for group in ([(1, 19, 18), (11, 9, 18)], [(1, 1, 23), (11, 2, 3)], [(2, 11, 5), (21, 1, 5), (2, 1, 15)], [(1, 2, 34), (12, 3, 4), (1, 23, 4)],
                  [(10, 1, 2), (1, 0, 12), (10, 12, 0)], [(3, 11, 1), (31, 1, 1), (3, 1, 11)]):
        yield {"k": "ordered", "comps": [list(c) for c in group]}
        yield {"k": "ordered", "comps": [list(c) for c in reversed(group)]}
    # strongly unbalanced compositions (1-3 residues of one sign against many of the other) with 1..17 neutrals, presented
    # as random and as block-like arrangements: the regime where a truncated candidate scan loses the maximum
    rngu = gen.sub_rng(0, ID, "unbalanced")
    for j in range(60 if tier == "quick" else 500):
        few, many, z = rngu.randint(1, 3), rngu.randint(8, 30), rngu.randint(1, 17)
        yield {"k": "unbalanced", "c": [few, many, z] if j % 2 else [many, few, z], "o": rngu.randrange(1 << 30)}
    # no (or almost no) neutral residues, a minority block of 1-10 and a majority run 5-12 times longer: where the delta profile
    # of the sliding block has a dip before its maximum
    for j in range(40 if tier == "quick" else 300):
        few = rngu.randint(1, 10)
        many = min(75, few * rngu.randint(5, 12) + rngu.randint(0, 4))
        z = rngu.choice([0, 0, 0, 1, 2])
        yield {"k": "unbalanced", "c": [few, many, z] if j % 2 else [many, few, z], "o": rngu.randrange(1 << 30), "long_majority": 1}
    # hundreds of distinct compositions in ONE process, then the first ones again (new objects, new spellings):
    # delta-max must not depend on how many other compositions were analysed in between
    yield {"k": "sweep", "count": 420 if tier == "quick" else 1500, "again": 80}
    # chains of more than 1000 residues that share their first and last residues and differ inside, analysed one after another
    # in one process (few charges of both signs and many neutrals keep the delta-max search to its 49 candidates)
    yield {"k": "longs", "lens": [1100, 1100, 1250] if tier == "quick" else [1100, 1100, 1250, 2100, 2100]}
    rng = gen.sub_rng(seed, ID, "random")
    # >= 18 neutral residues: exhaustive search is out of reach, so a hill-climb on delta (own reference) looks for an
    # arrangement beating the documented family; there a kappa above 1 would be a violation (no known finding applies)
    for i in range(NCLIMB[tier]):
        p = rng.randint(1, 8)
        n = rng.randint(1, 8)
        z = rng.choice([18, 18, 19, 20, 24, 30, 40])
        yield {"k": "climb", "c": [p, n, z], "o": rng.randrange(1 << 30)}
    for i in range(NRANDOM[tier]):
        yield {"k": "seq", "s": gen.rand_seq(rng, hi=RANDOM_HI[tier] if i % 5 == 0 else 60), "order": rng.random()}


def multiset_arrangements(p, n, z):
    """All distinct arrangements of p '+', n '-', z '0'."""
    N = p + n + z
    for pos_idx in itertools.combinations(range(N), p):
        rest = [i for i in range(N) if i not in set(pos_idx)]
        for neg_sel in itertools.combinations(range(len(rest)), n):
            pat = [0] * N
            for i in pos_idx:
                pat[i] = 1
            for j in neg_sel:
                pat[rest[j]] = -1
            yield tuple(pat)


def true_maximiser(p, n, z):
    best, arg = -1.0, None
    for pat in multiset_arrangements(p, n, z):
        d = M.delta_float(pat)
        if d > best:
            best, arg = d, pat
    return best, arg


def hill_climb(p, n, z, rng, iters=3000, restarts=4):
    """Random-swap hill-climb on the reference delta, started from the family maximiser and from random arrangements."""
    _, start = M.dmax_family(p, n, z)
    best = (M.delta_float(start), tuple(start))
    for r in range(restarts):
        cur = list(start) if r % 2 == 0 else [1] * p + [-1] * n + [0] * z
        if r % 2:
            rng.shuffle(cur)
        d = M.delta_float(cur)
        N = len(cur)
        for _ in range(iters):
            i, j = rng.randrange(N), rng.randrange(N)
            if cur[i] == cur[j]:
                continue
            cur[i], cur[j] = cur[j], cur[i]
            d2 = M.delta_float(cur)
            if d2 >= d:
                d = d2
            else:
                cur[i], cur[j] = cur[j], cur[i]
        if d > best[0]:
            best = (d, tuple(cur))
    return best


def observe(rep, S, seq, order_seed):
    """Drive the three getters on ONE object in random order with repeats."""
    rng = random.Random(order_seed)
    obj = S["SP"](seq)
    ops = ["kappa", "delta", "dmax"] * 2
    if rng.random() < 0.35 and len(seq) <= 80:
        ops.append("dmax_with_permutant")
        rep.cnt("permutant_asked_among_the_calls")
    rng.shuffle(ops)
    vals = {"kappa": [], "delta": [], "dmax": []}
    seen_dmax_cached = False
    for op in ops:
        if op == "kappa":
            vals["kappa"].append(obj.get_kappa())
            seen_dmax_cached = True
        elif op == "delta":
            vals["delta"].append(obj.get_delta())
        elif op == "dmax_with_permutant":
            pv = obj.get_deltaMax(True)
            vals["dmax"].append(pv[0] if isinstance(pv, tuple) else pv)
            seen_dmax_cached = True
        else:
            if seen_dmax_cached or vals["dmax"]:
                rep.cnt("cached_dmax_path")
            vals["dmax"].append(obj.get_deltaMax())
    return vals, ops


def judge_seq(rep, S, seq, order_seed, tag):
    pat = M.pattern(seq)
    p, n, z = M.counts(pat)
    reg = M.regime(p, n, z)
    vals, ops = observe(rep, S, seq, order_seed)
    for name, vs in vals.items():
        if any(not same(v, vs[0]) for v in vs):
            rep.viol("unstable_" + name, "%s answered %r on one object (%s, order %s)" % (name, vs, seq, ops))
            return
    k, d, m = vals["kappa"][0], vals["delta"][0], vals["dmax"][0]
    rep.cnt("regime:" + reg)
    # (b) independent cross-checks
    d_ref = M.delta_float(pat)
    fam_vals, _ = M.dmax_family(p, n, z)
    delta_ok = M.close(d, d_ref)
    dmax_ok = any(M.close(m, fv) for fv in fam_vals)
    if not delta_ok:
        rep.viol("delta_value", "get_delta(%s)=%r, definition gives %r" % (seq, d, d_ref))
    if not dmax_ok:
        rep.viol("deltamax_family", "get_deltaMax(%s)=%r, documented family maximum %r (regime %s)" % (seq, m, fam_vals, reg),
                 sig={"regime": reg, "below": bool(all(m < fv for fv in fam_vals))})
    # (a) relation among the observed values
    relation_ok = True
    if m == 0:
        rep.cnt("sentinel_observed")
        if not (k == -1):
            relation_ok = False
            rep.viol("sentinel", "deltaMax == 0 but kappa = %r for %s" % (k, seq))
    else:
        rep.distinct(M.pat_str(pat))
        if k == -1:
            relation_ok = False
            rep.viol("sentinel", "kappa = -1 although deltaMax = %r != 0 for %s" % (m, seq))
        else:
            try:
                r = d / m
            except Exception as e:
                rep.viol("ratio", "cannot divide observed delta %r by deltaMax %r (%s)" % (d, m, e))
                return
            # the relation is judged on the observed operands with the same float division the
            # library performs, so no neighbourhood of the clamp edges has to be skipped
            if r == 1.0:
                rep.cnt("ratio_exactly_one")
            if 1.0 < r < 1.1:
                rep.cnt("clamp_observed")
                want = 1.0
            else:
                want = r
            if not (k == want or M.close(k, want, rel=1e-12, ab=0.0)):
                relation_ok = False
                rep.viol("ratio", "kappa=%r but delta/deltaMax=%r/%r -> %r for %s" % (k, d, m, want, seq),
                         sig={"regime": reg})
    # (c) range
    if k == -1:
        pass
    elif isinstance(k, bool) or not (k == k):
        rep.viol("range_nan", "kappa=%r for %s" % (k, seq))
    elif k < 0:
        rep.viol("range_negative", "kappa=%r for %s" % (k, seq), sig={"regime": reg})
    elif k > 1:
        rep.cnt("kappa_gt1:" + reg)
        rep.viol("range_gt1", "kappa=%r > 1 for %s (delta %r, deltaMax %r, regime %s, %s)" % (k, seq, d, m, reg, tag),
                 sig={"regime": reg, "relation_ok": relation_ok, "delta_ok": delta_ok,
                      "dmax_matches_family": dmax_ok})
    else:
        rep.cnt("ratio_in_unit_interval")
    if rep.evaluations % 997 == 1:
        rep.sample({"sequence": seq, "kappa": k, "delta": d, "deltaMax": m, "regime": reg, "call_order": ops})


def same(a, b):
    return a == b or (a != a and b != b)


def judge(case, rep, S):
    if case["k"] == "seq":
        if len(case["s"]) > 60:
            rep.cnt("long_random")
        judge_seq(rep, S, case["s"], case.get("order", 0), "given")
    elif case["k"] == "unbalanced":
        p, n, z = case["c"]
        rng = gen.sub_rng(case["o"], "unbalanced")
        rep.cnt("unbalanced_composition_cases")
        if case.get("long_majority"):
            rep.cnt("minority_block_in_a_long_majority_run")
        zs = rng.randint(0, z)
        blocky = [0] * zs + [1] * p + [-1] * n + [0] * (z - zs)
        mixed = list(blocky)
        rng.shuffle(mixed)
        for arr in (blocky, blocky[::-1], mixed):
            judge_seq(rep, S, gen.spell(rng, arr), case["o"], "unbalanced composition %r" % (case["c"],))
    elif case["k"] == "longs":
        rng = gen.sub_rng(0, ID, "longs")
        ends = "EGGKQS"
        seqs = []
        for n in case["lens"]:
            body = [rng.choice("GSQNATP") for _ in range(n - 2 * len(ends))]
            for pos in rng.sample(range(len(body)), rng.randint(6, 30)):
                body[pos] = rng.choice("KRDE")
            seqs.append(ends + "".join(body) + ends[::-1])
        for j, s in enumerate(seqs + seqs[:1]):
            rep.cnt("longer_than_1000")
            judge_seq(rep, S, s, j, "chain #%d of %d chains of %r residues sharing both ends, analysed in this order in one process" % (j, len(seqs), case["lens"]))
    elif case["k"] == "sweep":
        rng = gen.sub_rng(0, "sweep")
        comps = gen.distinct_compositions(rng, case["count"], 8, 26)
        for j, (p, n, z) in enumerate(comps + comps[:case["again"]]):
            pat = [1] * p + [-1] * n + [0] * z
            rng.shuffle(pat)
            rep.cnt("sweep_compositions")
            judge_seq(rep, S, gen.spell(rng, pat), j, "composition #%d of a sweep over %d distinct compositions in one process%s" % (
                j, len(comps), " (second visit)" if j >= len(comps) else ""))
    elif case["k"] == "ordered":
        # different compositions analysed one after another in one process: delta-max must not leak between them
        rng = gen.sub_rng(0, "ordered", repr(case["comps"]))
        for p, n, z in case["comps"]:
            pat = [1] * p + [-1] * n + [0] * z
            rng.shuffle(pat)
            rep.cnt("ordered_composition_cases")
            judge_seq(rep, S, gen.spell(rng, pat), repr((p, n, z)), "composition %r after %r in one process" % ((p, n, z), case["comps"]))
    elif case["k"] == "climb":
        p, n, z = case["c"]
        rng = gen.sub_rng(case["o"], "climb")
        d, arr = hill_climb(p, n, z, rng)
        fam = M.dmax_family(p, n, z)[0][0]
        rep.cnt("hill_climb_cases_ge18_neutrals")
        if d > fam * (1 + 1e-12):
            rep.cnt("hill_climb_beats_family")
        judge_seq(rep, S, gen.spell(rng, arr), case["o"], "hill-climbed arrangement, ratio to family maximum %.6f" % (d / fam if fam else 0))
    elif case["k"] == "pat":
        pat = M.pat_from_str(case["p"])
        seq = gen.spell(gen.sub_rng(0, "spell", case["p"]), pat)
        rep.cnt("exhaustive_patterns")
        judge_seq(rep, S, seq, case["p"], "pattern")
    else:
        p, n, z = case["c"]
        best, arg = true_maximiser(p, n, z)
        rep.cnt("maximiser_cases")
        fam_vals, _ = M.dmax_family(p, n, z)
        if best > max(fam_vals) * (1 + 1e-9) + 1e-15:
            rep.cnt("true_max_exceeds_family")
        rng = gen.sub_rng(0, "maxcomp", p, n, z)
        arrs = [arg, arg[::-1], tuple(-q for q in arg)]
        base = list(arg)
        for _ in range(3):
            rng.shuffle(base)
            arrs.append(tuple(base))
        for j, a in enumerate(arrs):
            judge_seq(rep, S, gen.spell(rng, a), "%s/%d" % (case["c"], j), "maximiser" if j == 0 else "variant")
