"""C17 - shuffles and moves only rearrange, keep frozen sites, stay self-consistent.

Observed: get_shuffled_sequence, SequencePermutants.get_permutant and the five
backend moves, on parents with delta-max cached and not cached and along chains
(each result becomes the next parent), under recorded seeded and hostile RNG
tapes (the modules' `rng` alias is rebound to a recording shim, so every run is
replayable).  Oracle per returned object: rearrangement, frozen positions,
length, charge bookkeeping and carried delta-max equal to a freshly built
object's, derived values equal to a fresh object's, parent and all earlier chain
elements unaltered, new object unless the move legitimately returns the parent.
Shuffles and swaps must succeed for every sequence and frozen set."""
import copy
from collections import Counter

from .. import gen
from .. import salt as SALT
from .. import refmodel as M
from ..tapes import Shim, TapeExhausted, installed

ID = "C17"
LEVEL = "exploration"
TECHNIQUE = ("runtime monitoring: contracts + offline checker over recorded move results under seeded and hostile "
             "RNG tapes (recording shim substituted for the library's random source)")
RULE = ("sequences of all classes incl. length 1-3, one charge class, no neutrals, uncharged x frozen sets {empty, {0}, "
        "singletons, prefixes, all charged, everything, random; as set/list/tuple/numpy index array where the API takes them} x moves "
        "{get_shuffled_sequence, get_permutant, swapRes, swapRandChargeRes, full_shuffle, permute_block_swap, "
        "permute_cluster_charges} x chains of 1-30 mixed moves x seeded tapes, a share with a hostile forced prefix; "
        "parents with delta-max cached or not; distinct = distinct (parent, move, frozen, result); non-trivial = result "
        "differs from the parent")
RULE += ("; added after the mutation rounds: parents whose raw ratio lies in (1,1.1) with kappa() called before the move; the first cases of every shard are judged again at its end")
RULE += ("; round 5: frozen containers with entries that are no positions (negative, at or beyond the end) for the shuffles")
RULE += ("; round 6: parents written in the reduced charge alphabet (+, -, 0) for the backend shuffle and swaps")
RULE += ("; round 7: entries that are no positions also in the frozen set of the charge swap; parents of 100-300 residues with half / a quarter / all but five positions frozen")
RULE += ("; round 8: every move on reduced-alphabet parents")
RULE += ("; round 9: children that carry a delta-max are asked for the permutant; default-shuffle mobility check")
RULE += ("; round 10: parents whose movable positions all hold one letter while a different letter is frozen")
EXHAUSTIVE = {"quick": False, "thorough": False}
ASSUMPTIONS = [
    "frozen positions are 0-based indices (as the backend moves and the WL freeze-file define them)",
    "block-swap and charge-clustering may raise or exhaust the draw budget (20000 draws) on unsuitable sequences: such "
    "calls are counted as 'no result', not judged; shuffles and swaps must always return",
    "two known findings: permute_block_swap and permute_cluster_charges ignore `frozen` (see known_findings.json)",
    "carried delta-max agrees with a fresh computation to 1e-9 relative",
]
REQUIRED = {"all": ["move:full_shuffle", "move:swapRes", "move:swapRandChargeRes", "move:permute_block_swap",
                    "move:permute_cluster_charges", "move:get_shuffled_sequence", "move:get_permutant", "chains",
                    "hostile_tapes", "parent_dmax_cached", "parent_dmax_not_cached", "frozen_nonempty", "frozen_only_zero",
                    "frozen_all_charged", "uncharged_parents", "returned_parent_itself", "carried_dmax_checked",
                    "ancestors_checked", "frozen_as_numpy_array", "frozen_list_with_repeats", "frozen_with_negative_entries", "reduced_alphabet_parents", "long_parents_with_large_frozen_sets", "default_shuffle_mobility_checks", "child_permutants_checked", "parents_whose_movable_positions_hold_one_letter"]}
NCASE = {"quick": 700, "thorough": 8000}
DRAW_BUDGET = 20000
BACKEND_MOVES = ["full_shuffle", "swapRes", "swapRandChargeRes", "permute_block_swap", "permute_cluster_charges"]
MUST_SUCCEED = {"full_shuffle", "swapRes", "swapRandChargeRes", "get_shuffled_sequence", "get_permutant"}
SPECIAL = ["EKEKGG", "EKEKGGGEKEKRRDD", "K", "KE", "GKG", "GGGGGG", "KKKKKK", "EEEEKKKK", "WGGSK", "KKGG", "EKGGGGGGGGGGGGGGGGGGGG",
           "KRKRGSGSDEDE", "GSGSGSKGSGSGS", "EKEKEKEKEKEKEKEKEKEK", "EGKKKEE", "EKKKKKKEE", "KKGGGGGK", "EKKGGKE", "EGGGGGE",
           "KGEEEEGGK", "EEEEEEEEEEEEEEEEEEKG"]


def cases(tier, seed):
    rng = gen.sub_rng(seed, ID)
    for i in range(NCASE[tier]):
        if i < 3 * len(SPECIAL):
            s = SPECIAL[i % len(SPECIAL)]
        else:
            s = gen.rand_seq(rng, rng.choice(["idp", "polyampholyte", "polyelectrolyte", "short", "neutral_rich", "uniform", "single"]), hi=40)
        yield {"s": s, "o": rng.randrange(1 << 30), "hostile": (i % 4 == 0)}
    # every movable position holds the same letter and a different letter is frozen: the only possible result is the parent's own
    # sequence, and the shuffle returns it
    for s_, fz_ in [("GGGGGKGGGGG", [5]), ("KKKKE", [4]), ("EGGGG", [0]), ("QQQQQQQQKE", [8, 9]), ("AK", [1]), ("SSSSSSSSSSSSSSSSSSSD", [19])]:
        yield {"s": s_, "o": rng.randrange(1 << 30), "hostile": False, "fixed_frozen": fz_}
    # parents of 100-300 residues with half (or a quarter, or all but a few) of the positions frozen: index sets that no
    # longer behave like small sets
    for i in range(NCASE[tier] // 25):
        s = gen.rand_seq(rng, rng.choice(["idp", "polyampholyte", "uniform"]), lo=100, hi=300)
        yield {"s": s, "o": rng.randrange(1 << 30), "hostile": False, "big_frozen": rng.choice(["first_half", "last_half", "first_quarter", "all_but_five", "every_other"])}
    # parents written in the reduced charge alphabet (+, -, 0) that the backend class supports natively (the delta-max
    # search builds its candidates in it): the backend shuffle and swaps treat them like any other sequence
    for i in range(NCASE[tier] // 12):
        n = rng.randint(2, 24)
        s = "".join(rng.choice("+-0" if i % 3 else "+-") for _ in range(n))
        yield {"s": s, "o": rng.randrange(1 << 30), "hostile": (i % 4 == 0), "reduced": True}


def make_frozen(rng, seq, rep):
    N = len(seq)
    charged = [i for i, c in enumerate(seq) if c in "KRDE+-"]
    kind = rng.choice(["empty", "empty", "zero", "single", "prefix", "charged", "all", "random", "random"])
    if kind == "empty":
        F = []
    elif kind == "zero":
        F = [0]
        rep.cnt("frozen_only_zero")
    elif kind == "single":
        F = [rng.randrange(N)]
    elif kind == "prefix":
        F = list(range(rng.randint(1, N)))
    elif kind == "charged":
        F = charged
        if charged:
            rep.cnt("frozen_all_charged")
    elif kind == "all":
        F = list(range(N))
    else:
        F = [i for i in range(N) if rng.random() < 0.3]
    if F:
        rep.cnt("frozen_nonempty")
    return sorted(set(F))


def with_non_positions(rng, fz, N, rep):
    """Sometimes add entries that are no positions of the sequence (negative, at or beyond the end): the set then still names
    the same positions, so the same rearrangement law applies."""
    if rng.random() < 0.3 and isinstance(fz, (set, list, tuple)):
        extra = rng.sample([-1, -2, -N, -N - 1, N, N + 5, 10 * N], rng.randint(1, 3))
        rep.cnt("frozen_with_entries_that_are_no_positions")
        if any(e < 0 for e in extra):
            rep.cnt("frozen_with_negative_entries")
        return type(fz)(list(fz) + extra)
    return fz


def snap(q):
    return (q.seq, copy.deepcopy(list(map(float, q.chargePattern))), list(q.phosphosites), dict(q.aminoAcidColorMap), q.len)


def check_result(rep, S, move, parent, psnap, frozen, child, ctx, fresh_cache):
    """All facets for one returned object; emitted together so the known-finding
    matcher can require that only the frozen facet failed."""
    Sequence = S["Sequence"]
    fails = []
    seq_ok = isinstance(getattr(child, "seq", None), str)
    if not seq_ok:
        fails.append(("not_a_sequence_object", "%s returned %r" % (move, child)))
    else:
        if Counter(child.seq) != Counter(psnap[0]):
            fails.append(("not_rearrangement", "%s turned %s into %s" % (move, psnap[0], child.seq)))
        moved = [i for i in frozen if i < len(child.seq) and i < len(psnap[0]) and child.seq[i] != psnap[0][i]]
        if moved:
            fails.append(("frozen_moved", "%s moved frozen position(s) %r: %s -> %s (frozen %r)" % (move, moved, psnap[0], child.seq, frozen)))
        if child.len != len(child.seq):
            fails.append(("length_bookkeeping", "%s: len=%r for %s" % (move, child.len, child.seq)))
        if child.seq not in fresh_cache:
            f = Sequence(child.seq)
            fresh_cache[child.seq] = (list(map(float, f.chargePattern)), f.deltaMax(), f.kappa(), f.delta(), f.FCR())
        fcp, fdmax, fk, fd, ffcr = fresh_cache[child.seq]
        try:
            ccp = list(map(float, child.chargePattern))
        except Exception:
            ccp = None
        if ccp != fcp:
            fails.append(("charge_bookkeeping", "%s: child %s carries charge pattern %r, a fresh object has %r" % (move, child.seq, ccp, fcp)))
        if child.dmax != -1:
            rep.cnt("carried_dmax_checked")
            if not M.close(child.dmax, fdmax):
                fails.append(("carried_deltamax", "%s: child %s carries delta-max %r, a fresh object computes %r" % (move, child.seq, child.dmax, fdmax)))
        if not fails:
            try:
                vals = (child.kappa(), child.delta(), child.FCR())
            except Exception as e:
                fails.append(("child_unusable", "%s: child %s raised %s: %s" % (move, child.seq, type(e).__name__, e)))
            else:
                if not (M.close(vals[0], fk) and M.close(vals[1], fd) and M.close(vals[2], ffcr)):
                    fails.append(("child_values", "%s: child %s answers kappa/delta/FCR %r, a fresh object %r" % (move, child.seq, vals, (fk, fd, ffcr))))
        if not fails and child.dmax != -1 and len(child.seq) <= 40 and not (set(child.seq) & set("+-0")):
            # a child that carries a delta-max still finds the arrangement that has it
            try:
                pv = child.deltaMax(True)
                fv = Sequence(child.seq).deltaMax(True)
                ok_ = (isinstance(pv, tuple) and isinstance(fv, tuple) and M.close(pv[0], fv[0]) and isinstance(pv[1], type(fv[1]))
                       and (pv[1] is None or Counter(pv[1]) == Counter(child.seq)))
            except Exception as e:
                ok_, pv, fv = False, "%s: %s" % (type(e).__name__, e), None
            rep.cnt("child_permutants_checked")
            if not ok_:
                fails.append(("carried_deltamax", "%s: child %s (carried delta-max %r) answers deltaMax(True) with %r, a fresh object with %r" % (
                    move, child.seq, child.dmax, pv, fv)))
        if child is parent:
            rep.cnt("returned_parent_itself")
            if child.seq != psnap[0]:
                fails.append(("parent_altered", "%s returned the parent itself, altered" % move))
    now = snap(parent)
    if now != psnap:
        what = [n for n, a, b in zip(("sequence", "charge pattern", "phosphosites", "palette", "len"), psnap, now) if a != b]
        fails.append(("parent_altered", "%s altered the parent's %s: %r -> %r" % (move, what, psnap[:2], now[:2])))
    for facet, detail in fails:
        rep.viol(facet, detail + " " + ctx, sig={"move": move, "other_facets_ok": len(fails) == 1})
    return not fails


def judge(case, rep, S):
    Sequence, SP, SPerm = S["Sequence"], S["SP"], S["SPerm"]
    seq = case["s"]
    N = len(seq)
    rng = gen.sub_rng(case["o"], ID)
    frozen = make_frozen(rng, seq, rep)
    if case.get("fixed_frozen"):
        frozen = list(case["fixed_frozen"])
        rep.cnt("parents_whose_movable_positions_hold_one_letter")
    if case.get("big_frozen"):
        frozen = {"first_half": list(range(N // 2)), "last_half": list(range(N // 2, N)), "first_quarter": list(range(N // 4)),
                  "all_but_five": sorted(set(range(N)) - set(rng.sample(range(N), 5))), "every_other": list(range(0, N, 2))}[case["big_frozen"]]
        rep.cnt("long_parents_with_large_frozen_sets")
    hostile = None
    if case.get("hostile"):
        hostile = [[rng.choice(["lo", "hi"]) for _ in range(rng.randint(1, 6))] for _ in range(6)]
        rep.cnt("hostile_tapes")
    shim = Shim("%s/%s" % (ID, case["o"]), budget=DRAW_BUDGET, hostile=hostile)
    fresh_cache = {}
    if not any(c in "KRDE" for c in seq):
        rep.cnt("uncharged_parents")
    reduced = bool(case.get("reduced"))
    if reduced:
        rep.cnt("reduced_alphabet_parents")
    with installed([S["seqmod"], S["wlmod"]], shim):
        # ---- API-level shuffles
        api = None if reduced else SP(seq)
        if api is not None and rng.random() < 0.5:
            api.get_kappa()
        for style in (() if reduced else ("shuffle", "permutant")):
            parent = api.SeqObj if style == "shuffle" else None
            try:
                if style == "shuffle":
                    psnap = snap(parent)
                    fz = rng.choice([set(frozen), list(frozen), tuple(frozen), S["np"].array(frozen, dtype=int),
                                     list(frozen) + list(frozen)[len(frozen) // 2:]])
                    fz = with_non_positions(rng, fz, N, rep)
                    if not isinstance(fz, (set, list, tuple)):
                        rep.cnt("frozen_as_numpy_array")
                    elif len(fz) > len(frozen):
                        rep.cnt("frozen_list_with_repeats")
                    res = api.get_shuffled_sequence(fz) if frozen or rng.random() < 0.5 else api.get_shuffled_sequence()
                    move = "get_shuffled_sequence"
                    fr = frozen
                else:
                    pobj = SPerm(seq)
                    parent = pobj.SeqObj
                    psnap = snap(parent)
                    res = pobj.get_permutant()
                    move = "get_permutant"
                    fr = []
            except TapeExhausted as e:
                rep.viol("no_progress", "%s on %s (frozen %r) exhausted the draw budget" % (style, seq, frozen), sig={"move": style})
                continue
            except Exception as e:
                rep.viol("move_raised", "%s on %s (frozen %r) raised %s: %s" % (style, seq, frozen, type(e).__name__, e),
                         sig={"move": style, "exception": type(e).__name__})
                continue
            rep.cnt("move:" + move)
            child = getattr(res, "SeqObj", None)
            ok = check_result(rep, S, move, parent, psnap, fr, child, "(API call on %s)" % seq, fresh_cache)
            if ok and child is not None:
                fo = SP(child.seq)
                a = (res.get_sequence(), len(res), res.get_kappa(), res.get_delta(), res.get_FCR(), res.get_phasePlotRegion())
                b = (fo.get_sequence(), len(fo), fo.get_kappa(), fo.get_delta(), fo.get_FCR(), fo.get_phasePlotRegion())
                if not all(x == y or M.close(x, y) for x, y in zip(a, b)):
                    rep.viol("child_values", "object returned by %s answers %r, a fresh object of %s answers %r" % (move, a, child.seq, b),
                             sig={"move": move, "other_facets_ok": True})
                if child.seq != seq:
                    rep.distinct((seq, move, tuple(fr), child.seq))
        # ---- backend chain
        cur = Sequence(seq)
        if rng.random() < 0.5:
            cur.kappa() if rng.random() < 0.5 else cur.deltaMax()
            rep.cnt("parent_dmax_cached")
        else:
            rep.cnt("parent_dmax_not_cached")
        chain = [(cur, snap(cur))]
        nmoves = rng.randint(1, 30) if rng.random() < 0.6 else rng.randint(1, 3)
        if case.get("big_frozen"):
            nmoves = rng.randint(2, 4)
        rep.cnt("chains")
        for step in range(nmoves):
            move = rng.choice(BACKEND_MOVES[:3] if case.get("big_frozen") else BACKEND_MOVES)
            parent, psnap = chain[-1]
            try:
                if move == "swapRes":
                    i, j = rng.randrange(N), rng.randrange(N)
                    child = parent.swapRes(i, j)
                    fr = []                      # explicit indices: the frozen set does not apply
                    ctx = "(swapRes(%d,%d), step %d of a chain from %s)" % (i, j, step, seq)
                elif move == "swapRandChargeRes":
                    fzs = with_non_positions(rng, set(frozen), N, rep)
                    child = parent.swapRandChargeRes(fzs) if frozen or fzs or rng.random() < 0.5 else parent.swapRandChargeRes()
                    fr = frozen
                    ctx = "(frozen %r, step %d of a chain from %s)" % (frozen, step, seq)
                else:
                    fz = rng.choice([set(frozen), list(frozen), tuple(frozen), S["np"].array(frozen, dtype=int),
                                     list(frozen) + list(frozen)[len(frozen) // 2:]]) if move == "full_shuffle" else set(frozen)
                    if move == "full_shuffle":
                        fz = with_non_positions(rng, fz, N, rep)
                    child = getattr(parent, move)(fz) if frozen or rng.random() < 0.5 else getattr(parent, move)()
                    fr = frozen
                    ctx = "(frozen %r, step %d of a chain from %s)" % (frozen, step, seq)
            except TapeExhausted:
                if move in MUST_SUCCEED:
                    rep.viol("no_progress", "%s on %s (frozen %r) exhausted the draw budget" % (move, psnap[0], frozen), sig={"move": move})
                    return
                rep.cnt("no_result:" + move)
                continue
            except Exception as e:
                # the block and cluster moves may decline (the library's own SequenceException: not enough charged residues, no
                # arrangement with another delta found); a NameError / AttributeError / AssertionError ... is a crash, not an answer
                # (on very short chains the unchanged block move also declines with a ValueError from its block-size draw)
                crash = isinstance(e, (NameError, AttributeError, ImportError, AssertionError, RecursionError, MemoryError, SyntaxError))
                declined = move not in MUST_SUCCEED and not crash
                if not declined:
                    rep.viol("move_raised", "%s on %s (frozen %r) raised %s: %s" % (move, psnap[0], frozen, type(e).__name__, e),
                             sig={"move": move, "exception": type(e).__name__})
                    return
                rep.cnt("no_result:" + move)
                continue
            rep.cnt("move:" + move)
            ok = check_result(rep, S, move, parent, psnap, fr, child, ctx, fresh_cache)
            if not ok:
                return
            if child.seq != psnap[0]:
                rep.distinct((psnap[0], move, tuple(fr), child.seq))
            if child is not parent:
                chain.append((child, snap(child)))
        # every earlier chain element must still be what it was when it was produced
        rep.cnt("ancestors_checked", len(chain))
        for k, (q, s0) in enumerate(chain):
            if snap(q) != s0:
                rep.viol("ancestor_altered", "chain element %d (%s) changed after later moves: %r -> %r" % (k, s0[0], s0[:2], snap(q)[:2]),
                         sig={"move": "chain"})
                break
    if rep.evaluations % 10 == 0:
        SALT.default_shuffles_move_everything(S, rep, "frozen_nobody_asked_for", " (after a chain from %s with frozen %r)" % (seq, frozen))
    rep.cnt("rng_draws", shim.total_draws())
    if rep.evaluations % 100 == 1:
        rep.sample({"sequence": seq, "frozen": frozen, "chain": [c[1][0] for c in chain][:8], "hostile": hostile is not None,
                    "tape_head": [list(map(str, t)) for t in shim.log[:6]]})
