"""C05 - patterning parameters see only charge classes; reversal / inversion invariant.

Metamorphic oracle: for a base sequence s and a transformed t the five getters
(kappa, delta, deltaMax, SCD, Omega) on fresh objects must agree.  Transforms:
same-charge-class substitution (kappa/delta/deltaMax/SCD), substitution within
{P,E,D,K,R} / within the other fifteen (Omega), reversal and +/- exchange (all
five), and compositions of these."""
from .. import gen
from .. import refmodel as M
from .. import salt as SALT

ID = "C05"
LEVEL = "exploration"
TECHNIQUE = "runtime monitoring: metamorphic relation between pairs of observed executions (substitution, reversal, charge inversion)"
RULE = ("every charge pattern of length <= Lp (quick 8, thorough 10) against its reversal and its inversion; random "
        "sequences of all classes (quick <= 120, thorough <= 300 residues) x transforms {class respelling, Omega-class "
        "respelling, reversal, inversion, reversal+inversion, respelling+reversal}; each pair on fresh objects; distinct "
        "= distinct (base, transform, transformed) triple; non-trivial = kappa defined (not -1) for the base")
RULE += ("; added after the mutation rounds: targeted compositions with >= 18 neutrals and 1-2 residues of one sign; 450-1300-residue chains judged on delta; salted / re-spelled objects; the first cases of every shard are judged again at its end")
RULE += ("; round 5: objects restored from pickle / copy / deepcopy")
RULE += ("; round 8: the delta-max arrangement of a composition itself as input (with its mirror and charge inverse); objects built from files")
RULE += ("; round 9: the permutant asked first on a third of the objects; arrangements whose raw ratio exceeds 1; near-tie compositions; 0-3 neutral residues")
EXHAUSTIVE = {"quick": False, "thorough": False}
EXHAUSTIVE_NOTE = {"quick": "all patterns of length <= 8 vs reversal and inversion",
                   "thorough": "all patterns of length <= 10 vs reversal and inversion"}
ASSUMPTIONS = [
    "values of a pair agree to 1e-9 relative + 1e-12 absolute (summation order differs under reversal)",
    "a kappa/Omega pair is skipped (counted) only when one member is exactly 1 and the other within 1e-6 of 1.1, i.e. "
    "float noise moved the raw ratio across the 1.1 clamp edge; the edge at 1.0 is continuous",
]
REQUIRED = {"all": ["salted_objects", "pairs:respell", "pairs:omega_respell", "pairs:reverse", "pairs:invert", "nontrivial_kappa",
                    "nontrivial_scd", "nontrivial_omega", "every_residue_seen", "longer_than_400", "delta_max_arrangements_as_input", "permutant_asked_first", "arrangements_with_raw_ratio_above_one"]}
LP = {"quick": 8, "thorough": 10}
NRANDOM = {"quick": 400, "thorough": 5000}
HI = {"quick": 120, "thorough": 300}
OMEGA_IN = "PEDKR"
OMEGA_OUT = "".join(a for a in M.AA if a not in OMEGA_IN)
_seen = set()


def invert(seq):
    tr = {"K": "E", "R": "D", "E": "K", "D": "R"}
    return "".join(tr.get(c, c) for c in seq)


def omega_respell(rng, seq):
    return "".join(rng.choice(OMEGA_IN) if c in OMEGA_IN else rng.choice(OMEGA_OUT) for c in seq)


def cases(tier, seed):
    for L in range(1, LP[tier] + 1):
        for pat in gen.all_patterns(L):
            yield {"k": "pat", "p": M.pat_str(pat)}
    rng = gen.sub_rng(seed, ID)
    for z in (0, 1, 2, 3, 5, 9, 13, 17):
        for few in (1, 2, 3):
            for many in ((10, 16) if tier == "quick" else (10, 14, 16, 20, 28)):
                pat = [1] * few + [-1] * many + [0] * z
                rng.shuffle(pat)
                yield {"k": "seq", "s": gen.spell(rng, pat), "o": rng.randrange(1 << 30)}
                blk = [0] * (z // 2) + [1] * few + [-1] * many + [0] * (z - z // 2)
                yield {"k": "seq", "s": gen.spell(rng, blk), "o": rng.randrange(1 << 30)}
    for z in (18, 19, 25):
        for few in (1, 2):
            for many in ((5, 9, 14) if tier == "quick" else (5, 7, 9, 11, 14, 20, 30)):
                pat = [1] * few + [-1] * many + [0] * z
                rng.shuffle(pat)
                yield {"k": "seq", "s": gen.spell(rng, pat), "o": rng.randrange(1 << 30)}
    # arrangements whose own delta exceeds the documented family maximum (raw ratio above 1), found with the reference model
    rngx = gen.sub_rng(0, ID, "above_one")
    found = 0
    for j in range(400):
        few, many, z = rngx.randint(1, 3), rngx.randint(6, 24), rngx.choice([0, 0, 1, 2, 3])
        pat = [1] * few + [-1] * many + [0] * z
        if rngx.random() < 0.5:
            pat = [-q for q in pat]
        rngx.shuffle(pat)
        if pat == pat[::-1]:
            continue
        p_, n_, z_ = M.counts(pat)
        m_ = M.dmax_family(p_, n_, z_)[0][0]
        if m_ > 0 and M.delta_float(pat) / m_ > 1.0:
            found += 1
            yield {"k": "seq", "s": gen.spell(rngx, pat), "o": rngx.randrange(1 << 30), "above_one": 1}
            if found >= (12 if tier == "quick" else 60):
                break
    # compositions with one or a few minority charges and 9-23 neutrals (near-ties between candidate arrangements)
    for comp in [(7, 1, 9), (5, 1, 13), (5, 1, 23), (8, 3, 16), (1, 7, 9), (1, 5, 13), (6, 1, 11), (9, 2, 18)]:
        pat = [1] * comp[0] + [-1] * comp[1] + [0] * comp[2]
        for _ in range(2):
            rngx.shuffle(pat)
            yield {"k": "seq", "s": gen.spell(rngx, pat), "o": rngx.randrange(1 << 30), "near_tie": 1}
    # the delta-max arrangement of a composition itself (and so its mirror and charge inverse) as input: ratios of exactly 1
    rngo = gen.sub_rng(0, ID, "optimal")
    for j in range(36 if tier == "quick" else 200):
        z = rngo.choice([0, rngo.randint(1, 17), 18, rngo.randint(18, 30)])
        p_, n_ = rngo.randint(1, 9), rngo.randint(1, 9)
        best = M.dmax_family(p_, n_, z)[1]
        if best:
            yield {"k": "seq", "s": gen.spell(rngo, list(best)), "o": rngo.randrange(1 << 30), "optimal": 1}
    yield {"k": "sweep", "count": 330 if tier == "quick" else 1200}
    for n in (450, 700) if tier == "quick" else (450, 700, 1001, 1300):
        yield {"k": "seq", "s": gen.rand_seq(rng, "idp", lo=n, hi=n)[:n], "o": rng.randrange(1 << 30)}
    for i in range(NRANDOM[tier]):
        yield {"k": "seq", "s": gen.rand_seq(rng, hi=HI[tier] if i % 4 == 0 else 50), "o": rng.randrange(1 << 30)}


def getters(S, seq, want, salted=None):
    o = S["SP"](seq) if salted is None else SALT.make_object(S, seq, salted[0], salted[1])
    if salted is not None:
        SALT.salt(S, o, seq, salted[0], salted[1], k=1, cheap=len(seq) > 100)
    out = {}
    if "deltaMax" in want and len(seq) <= 80 and (len(seq) + seq.count("G") + seq.count("K")) % 3 == 0 or _force_perm[0]:
        # on a third of the objects the delta-max permutant is asked for before anything else (the same third for a sequence,
        # a different one for its mirror image / inverse / respelling)
        pv = o.get_deltaMax(True)
        _perm_first[0] += 1
        out["deltaMax(True)[0]"] = pv[0] if isinstance(pv, tuple) else pv
    for g in want:
        if g == "kappa":
            out[g] = o.get_kappa()
        elif g == "delta":
            out[g] = o.get_delta()
        elif g == "deltaMax":
            out[g] = o.get_deltaMax()
        elif g == "SCD":
            out[g] = o.get_SCD()
        elif g == "Omega":
            out[g] = o.get_Omega()
    return out


_perm_first = [0]
_force_perm = [False]
ALL5 = ("kappa", "delta", "deltaMax", "SCD", "Omega")
PATT4 = ("kappa", "delta", "deltaMax", "SCD")


def compare(rep, S, base, t, name, which, basevals):
    tv = getters(S, t, which, salted=(gen.sub_rng(0, "salt", t), rep) if (len(t) + len(name)) % 5 == 0 else None)
    rep.cnt("pairs:" + name)
    rep.distinct((base, name, t))
    for g in which:
        a, b = basevals[g], tv[g]
        if M.close(a, b):
            continue
        if g in ("kappa", "Omega") and edge_pair(a, b):
            # one member's raw ratio fell just below 1.1 (reported as exactly 1) and the other's just above
            rep.cnt("skipped_clamp_edge")
            continue
        rep.viol("%s:%s" % (name, g), "%s changes under %s: %r for %s vs %r for %s" % (g, name, a, base, b, t),
                 sig={"transform": name, "getter": g})


def edge_pair(a, b):
    try:
        return (a == 1.0 and abs(b - 1.1) < 1e-6) or (b == 1.0 and abs(a - 1.1) < 1e-6)
    except Exception:
        return False


def judge_sweep(case, rep, S):
    """Many distinct compositions in ONE process; then early compositions again, each against its charge inversion
    (a different composition) and its reversal."""
    rng = gen.sub_rng(0, ID, "sweep")
    comps = gen.distinct_compositions(rng, case["count"], 8, 24)
    bases = []
    for (p, n, z) in comps:
        pat = [1] * p + [-1] * n + [0] * z
        rng.shuffle(pat)
        s = gen.spell(rng, pat)
        bases.append(s)
        S["SP"](s).get_kappa()
        rep.cnt("sweep_compositions")
    for s in bases[:90]:
        a = getters(S, s, ("kappa", "deltaMax"))
        for name, t in (("invert", invert(s)), ("reverse", s[::-1]), ("respell", gen.respell(rng, s))):
            b = getters(S, t, ("kappa", "deltaMax"))
            rep.cnt("pairs:" + name)
            for g in ("kappa", "deltaMax"):
                if not M.close(a[g], b[g]) and not edge_pair(a[g], b[g]):
                    rep.viol("%s:%s" % (name, g), "%s changes under %s after %d other compositions were analysed in this process: %r for %s vs %r for %s" % (
                        g, name, len(comps), a[g], s, b[g], t), sig={"transform": name, "getter": g})
                    return


def judge(case, rep, S):
    if case["k"] == "sweep":
        return judge_sweep(case, rep, S)
    if case["k"] == "pat":
        pat = M.pat_from_str(case["p"])
        rng = gen.sub_rng(0, ID, case["p"])
        base = gen.spell(rng, pat)
        heavy = False
    else:
        base = case["s"]
        rng = gen.sub_rng(case["o"], ID)
        heavy = True
    if case.get("optimal"):
        rep.cnt("delta_max_arrangements_as_input")
    if case.get("above_one"):
        rep.cnt("arrangements_with_raw_ratio_above_one")
    if rep.counters.get("permutant_asked_first", 0) < _perm_first[0]:
        rep.cnt("permutant_asked_first", _perm_first[0] - rep.counters.get("permutant_asked_first", 0))
    _seen.update(base)
    if len(_seen) == 20:
        rep.cnt("every_residue_seen")
    which = ALL5 if len(base) <= 200 else ("kappa", "delta", "deltaMax", "Omega")
    if len(base) > 400:
        # very long chains: delta alone (the delta-max search would dominate the run)
        rep.cnt("longer_than_400")
        for name, t in (("reverse", base[::-1]), ("invert", invert(base)), ("respell", gen.respell(rng, base))):
            a, b = S["SP"](base).get_delta(), S["SP"](t).get_delta()
            rep.cnt("pairs:" + name)
            if not M.close(a, b):
                rep.viol("%s:delta" % name, "delta changes under %s for a %d-residue chain: %r vs %r" % (name, len(base), a, b),
                         sig={"transform": name, "getter": "delta"})
        return
    _force_perm[0] = bool(case.get("near_tie")) and "deltaMax" in which
    try:
        bv = getters(S, base, which)
    finally:
        _force_perm[0] = False
    if bv["kappa"] != -1:
        rep.cnt("nontrivial_kappa")
    if bv.get("SCD", 0) != 0:
        rep.cnt("nontrivial_scd")
    if bv["Omega"] != -1:
        rep.cnt("nontrivial_omega")
    if rep.evaluations % 1500 == 1:
        rep.sample({"base": base, "values": bv, "reversed": base[::-1], "inverted": invert(base)})
    patt = tuple(g for g in which if g != "Omega")
    compare(rep, S, base, base[::-1], "reverse", which, bv)
    compare(rep, S, base, invert(base), "invert", which, bv)
    compare(rep, S, base, gen.respell(rng, base), "respell", patt, bv)
    compare(rep, S, base, omega_respell(rng, base), "omega_respell", ("Omega",), bv)
    if heavy:
        compare(rep, S, base, invert(base)[::-1], "reverse+invert", which, bv)
        compare(rep, S, base, gen.respell(rng, base)[::-1], "respell+reverse", patt, bv)
        compare(rep, S, base, omega_respell(rng, invert(base)), "invert+omega_respell", ("Omega",), bv)
