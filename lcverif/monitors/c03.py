"""C03 - delta-max is attained, composition-only, and matches the documented search.

Observed on fresh objects only (history effects belong to C15): get_deltaMax()
and get_deltaMax(returnSeqDeltaMax=True).  Oracle: (a) composition-only across
random permutations/spellings of one composition; (b) the returned permutant is
a rearrangement of the input whose real get_delta() (fresh object) and reference
delta equal the value; (c) the value equals the maximum over the documented
candidate family, re-implemented from the statement (refmodel.families)."""
from collections import Counter

from .. import gen
from .. import refmodel as M
from .. import salt as SALT

ID = "C03"
LEVEL = "exploration"
TECHNIQUE = ("runtime monitoring: metamorphic (composition-only) + attained-witness check + independent "
             "re-implementation of the documented candidate family, on observed get_deltaMax results")
RULE = ("every composition (n+,n-,n0) with N <= Nmax (quick 24, thorough 40), each presented as 3 random "
        "permutations/spellings for the value and 1 more for the permutant, plus random compositions up to several "
        "hundred residues; distinct = distinct composition; non-trivial = at least one charged residue and N >= 5")
RULE += ("; added after the mutation rounds: one presentation already segregated (block / few neutrals / block), kappa or other legal queries before delta-max on some presentations, permutant asked after the value on one object; composition (1000,136,0) in the thorough tier; the first cases of every shard are judged again at its end")
RULE += ("; round 5: a few residues of one sign in front of a block of 10-170 of the other with 0-40 neutrals")
RULE += ("; round 8: minority blocks of 4-10 residues in majority runs 5-12 times longer; compositions (43,6,0), (30,0,18), (27,0,18)")
EXHAUSTIVE = {"quick": False, "thorough": False}
EXHAUSTIVE_NOTE = {"quick": "all compositions with N <= 24 (2,924)", "thorough": "all compositions with N <= 40 (12,340)"}
ASSUMPTIONS = [
    "the documented family is read as: one charge type or no neutrals - the shorter block slid through the longer; "
    "otherwise 0^s +^a 0^m -^b 0^e with all splits below 18 neutrals and s,e in 0..6 from 18 neutrals on; where the "
    "two blocks are equally long the statement is silent and the maximum of either sliding family is accepted",
    "values agree to 1e-9 relative; composition-only is judged to 1e-12 relative",
]
REQUIRED = {"all": ["salted_objects", "sparse_minority_long_majority", "regime:uncharged", "regime:one_charge_type", "regime:no_neutrals", "regime:mixed_lt18_neutrals",
                    "regime:mixed_ge18_neutrals", "boundary_n0_17", "boundary_n0_18", "tie_block_lengths",
                    "permutant_validated", "permutant_after_value_same_object", "segregated_presentations"]}
NMAX = {"quick": 24, "thorough": 40}
NRANDOM = {"quick": 120, "thorough": 1200}
EXTRA_THOROUGH = [(1000, 136, 0)]
EXTRA = [(30, 0, 18), (0, 40, 20), (45, 0, 25), (1, 16, 6), (1, 20, 10), (2, 28, 8), (16, 1, 12), (1, 20, 18), (20, 1, 18), (5, 1, 18),
         (1, 5, 18), (13, 1, 37), (1, 10, 25), (10, 1, 25), (2, 12, 30), (1, 6, 18), (3, 3, 17), (3, 3, 18), (3, 3, 19), (1, 1, 18), (5, 2, 18), (2, 5, 30), (4, 4, 24), (10, 10, 17),
         (10, 12, 18), (0, 7, 18), (7, 0, 18), (20, 0, 20), (0, 25, 25), (25, 25, 0), (30, 20, 0), (6, 6, 40)]


def cases(tier, seed):
    for c in EXTRA + (EXTRA_THOROUGH if tier == "thorough" else []):
        yield {"c": list(c)}
    for N in range(1, NMAX[tier] + 1):
        for c in gen.compositions(N):
            yield {"c": list(c)}
    rng = gen.sub_rng(seed, ID, "random")
    # a few residues of one sign in front of a long block of the other, with 0 .. 40 neutral residues
    for c in [(90, 1, 18), (1, 85, 19), (2, 100, 18), (120, 1, 22), (1, 150, 30), (1, 70, 17), (66, 1, 18), (43, 6, 0), (7, 50, 0), (30, 0, 18),
              (0, 33, 22), (27, 0, 18)]:
        yield {"c": list(c), "sparse": 1}
    for i in range(NRANDOM[tier] // 12):
        minority = rng.choice([1, 1, 2, 3, rng.randint(4, 10)])
        majority = gen.loglen(rng, 10, 170)
        if minority > 3:
            majority = min(90, minority * rng.randint(5, 12))
        z = rng.choice([0, rng.randint(1, 17), 18, rng.randint(18, 40)])
        yield {"c": [minority, majority, z] if rng.random() < 0.5 else [majority, minority, z], "sparse": 1}
    for i in range(NRANDOM[tier]):
        N = gen.loglen(rng, 21, 300 if i % 3 == 0 else 90)
        kind = rng.random()
        if kind < 0.2:
            z = 0
        elif kind < 0.4:
            z = rng.choice([17, 18, 19]) if N > 22 else rng.randint(0, N)
        else:
            z = rng.randint(0, N)
        z = min(z, N)
        p = rng.randint(0, N - z)
        if rng.random() < 0.15:
            p = rng.choice([0, N - z])
        yield {"c": [p, N - z - p, z]}


def judge(case, rep, S):
    p, n, z = case["c"]
    N = p + n + z
    rng = gen.sub_rng(0, ID, p, n, z)
    reg = M.regime(p, n, z)
    rep.cnt("regime:" + reg)
    if z == 17 and p and n:
        rep.cnt("boundary_n0_17")
    if z == 18 and p and n:
        rep.cnt("boundary_n0_18")
    if case.get("sparse"):
        rep.cnt("sparse_minority_long_majority")
    fams = M.families(p, n, z)
    if len(fams) > 1:
        rep.cnt("tie_block_lengths")
    if p + n > 0 and N >= 5:
        rep.distinct((p, n, z))
    base = [1] * p + [-1] * n + [0] * z
    presentations = []
    for _ in range(4):
        rng.shuffle(base)
        presentations.append(gen.spell(rng, base))
    if p and n and z:
        # presentations that are themselves strongly segregated (the input must not become a candidate of its own)
        k = rng.choice([0, 1, 2, 3, 4, 5])
        k = min(k, z)
        seg = [1] * p + [0] * k + [-1] * n + [0] * (z - k)
        if rng.random() < 0.5:
            seg = seg[::-1]
        presentations[1] = gen.spell(rng, seg)
        rep.cnt("segregated_presentations")
    elif p + n and z:
        c = [1] * p + [-1] * n
        seg = c[: len(c) // 2] + [0] * z + c[len(c) // 2:]
        presentations[1] = gen.spell(rng, seg)
    # (a) composition-only, fresh object per presentation
    values = []
    first_obj = None
    for j_, s in enumerate(presentations[:3]):
        o = S["SP"](s)
        if j_ == 1 and (p + n + z) % 2 == 0:
            o.get_kappa()                    # kappa first (on the segregated presentation, where a raw ratio above 1 is likely)
            rep.cnt("kappa_before_deltamax")
        if j_ == 2 and (p + 2 * n + z) % 4 == 0:
            # other legal queries first: none of them may change what delta-max is
            SALT.salt(S, o, "".join(s), rng, rep, k=2, cheap=False)
        first_obj = first_obj or o
        values.append(o.get_deltaMax())
    v0 = values[0]
    # the permutant must also come with the value when the value alone was asked for first (same object)
    again = first_obj.get_deltaMax(True)
    rep.cnt("permutant_after_value_same_object")
    if not (isinstance(again, tuple) and len(again) == 2 and isinstance(again[1], str)
            and Counter(again[1]) == Counter(presentations[0]) and M.close(again[0], v0, rel=1e-12, ab=0.0)
            and M.close(M.delta_float(M.pattern(again[1])), v0)):
        rep.viol("permutant_after_value", "get_deltaMax() then get_deltaMax(True) on one object built from %s returned %r (value alone was %r)" % (
            presentations[0], again, v0), sig={"regime": reg, "dmax_is_zero": v0 == 0})
    for s, v in zip(presentations, values):
        if not M.close(v, v0, rel=1e-12, ab=0.0):
            rep.viol("composition_only", "get_deltaMax differs between arrangements/spellings of %s: %r" % (
                case["c"], list(zip(presentations, values))))
            break
    # (b) attained by a rearrangement
    s = presentations[3]
    res = S["SP"](s).get_deltaMax(True)
    ok_shape = isinstance(res, tuple) and len(res) == 2
    if not ok_shape:
        rep.viol("permutant_shape", "get_deltaMax(True) on %s returned %r" % (s, res))
        return
    val, perm = res
    if not M.close(val, v0, rel=1e-12, ab=0.0):
        rep.viol("composition_only", "get_deltaMax(True) value %r differs from get_deltaMax() %r for %s / %s" % (
            val, v0, s, presentations[0]))
    if not isinstance(perm, str):
        rep.viol("permutant_missing", "get_deltaMax(True) on %s returned permutant %r" % (s, perm), sig={"regime": reg})
    elif Counter(perm) != Counter(s):
        rep.viol("permutant_not_rearrangement", "permutant %s is not a rearrangement of %s" % (perm, s),
                 sig={"regime": reg})
    else:
        d_real = S["SP"](perm).get_delta()
        d_ref = M.delta_float(M.pattern(perm))
        rep.cnt("permutant_validated")
        if not (M.close(d_real, val) and M.close(d_ref, val)):
            rep.viol("not_attained", "permutant %s has delta %r (reference %r) but deltaMax reported %r" % (
                perm, d_real, d_ref, val), sig={"regime": reg})
    # (c) documented family
    fam_vals, _ = M.dmax_family(p, n, z)
    if not any(M.close(v0, fv) for fv in fam_vals):
        rep.viol("family_maximum", "get_deltaMax=%r for composition %s (regime %s) but the documented family gives %r" % (
            v0, case["c"], reg, fam_vals), sig={"regime": reg})
    if rep.evaluations % 211 == 1:
        rep.sample({"composition": case["c"], "regime": reg, "presentations": presentations, "deltaMax": v0,
                    "permutant": perm, "family_max": list(fam_vals)})
