"""C04 - composition parameters equal their published per-residue definitions.

Oracle: per-residue tables typed independently (refmodel), every getter must be
fsum(per-residue)/N (molecular weight: sum - 18 per peptide bond); the algebraic
identities of the statement; permutation invariance.  The getters are called on
one live object in a random order, each several times and with the alternative
scales interleaved, so a value that depends on what was asked before is seen."""
import math
import random
from collections import Counter

from .. import gen
from .. import refmodel as M
from .. import salt as SALT

ID = "C04"
LEVEL = "exploration"
TECHNIQUE = "runtime monitoring: independent per-residue reference tables + identities + permutation metamorphism on observed getter results"
RULE = ("the 20 single residues, all 400 ordered residue pairs (pins every table cell), random sequences of every "
        "composition class up to 400 residues incl. whitespace/lower-case presentations, each with one random "
        "permutation; per case ~30 getter calls in random order with repeats; distinct = distinct residue multiset; "
        "non-trivial = every case (each exercises every getter)")
RULE += ("; added after the mutation rounds: six (thorough 40) chains of 1000-3000 residues; words spelling three-letter codes; other legal calls (history salt) before the getters; the first cases of every shard are judged again at its end")
RULE += ("; round 5: look-alike words and few-letter alphabets (nucleotide strings, reading frames, DSSP strings)")
RULE += ("; round 6: several threads asking the composition getters, each of objects of its own")
RULE += ("; round 9: a third of the plain inputs reach the getters as objects obtained by another route (file, pickle, copy, backend object) or as shuffled copies of such objects")
EXHAUSTIVE = {"quick": False, "thorough": False}
EXHAUSTIVE_NOTE = {"quick": "20 single residues and 400 ordered pairs enumerated completely",
                   "thorough": "20 single residues and 400 ordered pairs enumerated completely"}
ASSUMPTIONS = [
    "the reference tables are a second transcription of the published scales (Kyte-Doolittle, Wimley-White interface "
    "scale with hydrophobic positive, Elam/Rucker/Shi PPII with the fill-ins documented in the code's citations, "
    "TOP-IDP disorder-promoting set, standard residue masses); a value wrong in both places is out of reach",
    "float agreement is judged to 1e-9 relative + 1e-12 absolute; counts are exact",
]
REQUIRED = {"all": ["single_residues", "residue_pairs", "random_sequences", "whitespace_presentations",
                    "ppii_scale_switches", "longer_than_1000", "salted_objects", "sweep_sequences", "thread_rounds", "objects_by_other_routes", "shuffled_copies_observed"]}
NRANDOM = {"quick": 4000, "thorough": 30000}


def cases(tier, seed):
    for a in M.AA:
        yield {"s": a, "kind": "single"}
    for a in M.AA:
        for b in M.AA:
            yield {"s": a + b, "kind": "pair"}
    yield {"s": "", "kind": "sweep", "count": 700 if tier == "quick" else 2500}
    for j in range(2 if tier == "quick" else 8):
        yield {"s": "", "kind": "threads", "o": j}
    for w in gen.CODE_WORDS + ["K" * 301 + "E" * 300 + "G" * 900, "Q" * 1500 + "K", "GS" * 600 + "D", "E" * 500 + "K" * 501 + "S" * 1200]:
        yield {"s": w, "kind": "random", "o": 13}
    for w in ["ALA", "MET", "GLYGLY", "METSERLYS", "HISTHRVALALA", "TYRILEPHEASN", "SERMETLYS", "LAA", "README", "ASP", "LYSARG"]:
        yield {"s": w, "kind": "random", "o": 11}
    rng = gen.sub_rng(seed, ID)
    for i in range(6 if tier == "quick" else 40):
        yield {"s": gen.rand_seq(rng, rng.choice(["idp", "uniform", "hydrophobic"]), lo=1001, hi=3000), "kind": "random", "o": rng.randrange(1 << 30)}
    for i in range(NRANDOM[tier]):
        s = gen.rand_seq(rng, hi=400 if i % 6 == 0 else 80)
        pres = s
        if i % 5 == 0:
            # whitespace / lower-case presentation of the same word (constructor accepts it)
            chars = []
            for ch in s:
                chars.append(ch.lower() if rng.random() < 0.3 else ch)
                if rng.random() < 0.08:
                    chars.append(rng.choice([" ", "\n", "\t", " \n"]))
            pres = "".join(chars)
        yield {"s": pres, "kind": "random", "o": rng.randrange(1 << 30)}


def reference(seq):
    N = len(seq)
    c = Counter(seq)
    pos = c["K"] + c["R"]
    neg = c["D"] + c["E"]
    ref = {
        "countPos": pos, "countNeg": neg, "countNeut": N - pos - neg,
        "fraction_positive": pos / N, "fraction_negative": neg / N,
        "FCR": (pos + neg) / N, "NCPR": (pos - neg) / N, "mean_net_charge": abs(pos - neg) / N,
        "fraction_expanding": sum(c[a] for a in M.EXPANDING) / N,
        "fraction_disorder_promoting": sum(c[a] for a in M.DISORDER_PROMOTING) / N,
        "mean_hydropathy": math.fsum((M.KD[a] + 4.5) * k for a, k in c.items()) / N,
        "uversky_hydropathy": math.fsum((M.KD[a] + 4.5) / 9.0 * k for a, k in c.items()) / N,
        "WW_hydropathy": math.fsum(M.WW[a] * k for a, k in c.items()) / N,
        "molecular_weight": math.fsum(M.MW[a] * k for a, k in c.items()) - 18.0 * (N - 1),
        "length": N,
    }
    for mode in M.PPII:
        ref["PPII:" + mode] = math.fsum(M.PPII[mode][a] * k for a, k in c.items()) / N
    ref["fractions"] = {a: c[a] / N for a in M.AA}
    return ref


def calls(obj):
    d = {
        "countPos": obj.get_countPos, "countNeg": obj.get_countNeg, "countNeut": obj.get_countNeut,
        "fraction_positive": obj.get_fraction_positive, "fraction_negative": obj.get_fraction_negative,
        "FCR": obj.get_FCR, "NCPR": obj.get_NCPR, "mean_net_charge": obj.get_mean_net_charge,
        "fraction_expanding": obj.get_fraction_expanding,
        "fraction_disorder_promoting": obj.get_fraction_disorder_promoting,
        "mean_hydropathy": obj.get_mean_hydropathy, "uversky_hydropathy": obj.get_uversky_hydropathy,
        "WW_hydropathy": obj.get_WW_hydropathy, "molecular_weight": obj.get_molecular_weight,
        "length": obj.get_length, "fractions": obj.get_amino_acid_fractions,
        "PPII:default": obj.get_PPII_propensity,
    }
    for mode in M.PPII:
        d["PPII:" + mode] = (lambda m=mode: obj.get_PPII_propensity(m))
        d["PPII:" + mode.upper()] = (lambda m=mode: obj.get_PPII_propensity(mode=m.upper()))
    return d


def observe(S, pres, order_seed, rep):
    r = random.Random(order_seed)
    word0 = "".join(ch for ch in pres.upper() if not ch.isspace())
    if pres == word0 and len(word0) <= 400 and r.random() < 0.3:
        # the object reaches the user by another route: a file, a pickle, a copy, a handle around a backend object built
        # from mixed-case text - and, half of the time, as a shuffled copy of such an object (same composition)
        obj = SALT.make_object(S, word0, r, rep)
        rep.cnt("objects_by_other_routes")
        if r.random() < 0.3:
            obj = obj.get_shuffled_sequence()
            rep.cnt("shuffled_copies_observed")
    else:
        obj = S["SP"](pres)
    if r.random() < 0.35:
        word_ = "".join(ch for ch in pres.upper() if not ch.isspace())
        SALT.salt(S, obj, word_, r, rep, cheap=len(word_) > 150)
    table = calls(obj)
    names = list(table) * 2
    r.shuffle(names)
    out = {}
    last_ppii = None
    for nm in names:
        if nm.startswith("PPII"):
            if last_ppii is not None and last_ppii != nm.split(":")[1].lower():
                rep.cnt("ppii_scale_switches")
            last_ppii = nm.split(":")[1].lower()
        out.setdefault(nm, []).append(table[nm]())
    return out


def judge_sweep(case, rep, S):
    """Hundreds of distinct sequences in ONE process, then the first ones again (same strings, new objects)."""
    rng = gen.sub_rng(0, ID, "sweep")
    seqs = []
    seen = set()
    while len(seqs) < case["count"]:
        s = gen.rand_seq(rng, hi=40)
        if s not in seen:
            seen.add(s)
            seqs.append(s)
    for j, s in enumerate(seqs + seqs[:150]):
        ref = reference(s)
        o = S["SP"](s)
        got = {"fractions": o.get_amino_acid_fractions(), "fraction_disorder_promoting": o.get_fraction_disorder_promoting(),
               "FCR": o.get_FCR(), "mean_hydropathy": o.get_mean_hydropathy(), "countPos": o.get_countPos()}
        rep.cnt("sweep_sequences")
        ok = (isinstance(got["fractions"], dict) and all(M.close(got["fractions"].get(a), ref["fractions"][a]) for a in M.AA)
              and M.close(got["fraction_disorder_promoting"], ref["fraction_disorder_promoting"]) and M.close(got["FCR"], ref["FCR"])
              and M.close(got["mean_hydropathy"], ref["mean_hydropathy"]) and got["countPos"] == ref["countPos"])
        if not ok:
            rep.viol("value:after_many_sequences", "sequence #%d of a sweep over %d distinct sequences in one process%s: %s answers %r, definitions give %r" % (
                j, len(seqs), " (second visit of the same string)" if j >= len(seqs) else "", s,
                {k: v for k, v in got.items() if k != "fractions"}, {k: ref[k] for k in got if k != "fractions"}), sig={"second_visit": j >= len(seqs)})
            return


def judge_threads(case, rep, S):
    """Several threads, each asking the composition getters of objects of its own."""
    from .. import threads as T
    rng = gen.sub_rng(case["o"], ID, "threads")
    seqs = [gen.rand_seq(rng, hi=80) for _ in range(8)] + ["IIIIIIIIII", "KRDE" * 5, "W"]
    table = {}
    for nm in calls(S["SP"]("ACDEFGHIKLMNPQRSTVWY")):
        table[nm] = (lambda o, nm=nm: calls(o)[nm]())
    if T.own_object_agreement(S["SP"], seqs, table, rep, "value:concurrent_callers", seed=case["o"], counter="thread_rounds"):
        # and the single-threaded answers themselves are the definitions
        for s in seqs:
            ref = reference(s)
            o = S["SP"](s)
            for nm in ("mean_hydropathy", "uversky_hydropathy", "WW_hydropathy", "FCR"):
                got = calls(o)[nm]()
                if not M.close(got, ref[nm]):
                    rep.viol("value:" + nm, "after the threaded round %s(%s)=%r, definition %r" % (nm, s, got, ref[nm]), sig={"after_threads": True})
                    return


def judge(case, rep, S):
    if case["kind"] == "sweep":
        return judge_sweep(case, rep, S)
    if case["kind"] == "threads":
        return judge_threads(case, rep, S)
    pres = case["s"]
    word = "".join(ch for ch in pres.upper() if not ch.isspace())
    rep.cnt({"single": "single_residues", "pair": "residue_pairs", "random": "random_sequences"}[case["kind"]])
    if pres != word:
        rep.cnt("whitespace_presentations")
    rep.distinct(tuple(sorted(Counter(word).items())))
    if len(word) > 1000:
        rep.cnt("longer_than_1000")
    ref = reference(word)
    seed = case.get("o", 7)
    obs = observe(S, pres, seed, rep)
    rng = random.Random(seed)
    perm = gen.permute(rng, word)
    obs_perm = observe(S, perm, seed + 1, rep)
    if rep.evaluations % 400 == 1:
        rep.sample({"input": pres, "observed": {k: v[0] for k, v in obs.items() if k != "fractions"}})
    for nm, vals in obs.items():
        key = nm
        if nm.startswith("PPII:"):
            m = nm.split(":")[1].lower()
            key = "PPII:" + ("hilser" if m == "default" else m)
        want = ref[key]
        for v in vals:
            if key == "fractions":
                ok = isinstance(v, dict) and set(v) == set(M.AA) and all(M.close(v[a], want[a]) for a in M.AA)
                if ok and not M.close(math.fsum(v.values()), 1.0):
                    ok = False
            elif key in ("countPos", "countNeg", "countNeut", "length"):
                ok = (v == want) and not isinstance(v, bool)
            else:
                ok = M.close(v, want)
            if not ok:
                rep.viol("value:" + key, "%s(%r) returned %r, per-residue definition gives %r (all answers on this object: %r)" % (
                    nm, pres, v, want, vals), sig={"getter": key})
                break
        # permutation invariance (same getter, permuted word, fresh object)
        v0 = vals[0]
        vp = obs_perm[nm][0]
        same = (v0 == vp) or (not isinstance(v0, dict) and M.close(v0, vp)) or (
            isinstance(v0, dict) and isinstance(vp, dict) and all(M.close(v0[a], vp.get(a)) for a in v0))
        if not same:
            rep.viol("permutation:" + key, "%s differs between %s (%r) and its permutation %s (%r)" % (nm, word, v0, perm, vp))
    # identities on the observed values themselves
    o = {k: v[0] for k, v in obs.items()}
    try:
        N = o["length"]
        checks = [
            ("FCR=f+ + f-", M.close(o["FCR"], o["fraction_positive"] + o["fraction_negative"])),
            ("NCPR=f+ - f-", M.close(o["NCPR"], o["fraction_positive"] - o["fraction_negative"])),
            ("|NCPR|<=FCR<=1", abs(o["NCPR"]) <= o["FCR"] + 1e-12 and o["FCR"] <= 1 + 1e-12),
            ("counts sum to length", o["countPos"] + o["countNeg"] + o["countNeut"] == N),
            ("mean net charge = |NCPR|", M.close(o["mean_net_charge"], abs(o["NCPR"]))),
            ("uversky = KD/9", M.close(o["uversky_hydropathy"], o["mean_hydropathy"] / 9.0)),
        ]
        for name, ok in checks:
            if not ok:
                rep.viol("identity", "%s fails on %r: %r" % (name, pres, o))
    except Exception as e:
        rep.viol("identity", "identities not evaluable on %r: %s (%r)" % (pres, e, o))
