"""C07 - get_SCD() equals the Sawle-Ghosh sequence charge decoration.

Oracle: own double sum fsum(q_m q_n sqrt(m-n), m>n)/N over independently typed
charges; exactly 0 with fewer than two charged residues; equal across
spellings.  On a share of the cases other read-only queries (phospho-kappa,
kappa, profiles) are made on the same object first, so a query that disturbs the
charge bookkeeping is seen through the SCD that follows it."""
import math

from .. import gen
from .. import refmodel as M
from .. import salt as SALT

ID = "C07"
LEVEL = "exploration"
TECHNIQUE = "runtime monitoring: reference-model oracle (own Sawle-Ghosh double sum) on observed get_SCD() results"
RULE = ("every charge pattern of length <= Lp (quick 10, thorough 12) with a random spelling; random sequences of all "
        "classes (quick <= 300, thorough <= 400) and long repetitive / block sequences up to 600 residues; published "
        "anchors sv1 / sv30; distinct = distinct charge pattern; non-trivial = at least two charged residues")
RULE += ("; added after the mutation rounds: several 1000-2000-residue chains analysed in one process (longer first, one repeated); every value asked twice; objects from lower-case text / around a backend object; the first cases of every shard are judged again at its end")
RULE += ("; round 5: charged-residue counts 511..514, 769, 1023..1025; objects restored from pickle / copy; look-alike words (nucleotide strings, reading frames); salt shuffles with frozen entries that are no positions")
RULE += ("; round 6: charged patches joined by charge-free linkers of 99-260 residues")
RULE += ("; round 7: copies from get_shuffled_sequence with half / a quarter / every other position frozen (140-200 residues); texts typed with one residue type in lower case; thorough tier: a 4202-residue chain with charges more than 4096 apart")
RULE += ("; round 8: objects built from files whose path, size and time stamps repeat; block / cluster children in the salt")
RULE += ("; round 9: exactly two charged residues at every length 5-260 (thorough 700); children of pair swaps of parents that have answered get_SCD; degenerate kappa_X groupings in the salt")
EXHAUSTIVE = {"quick": False, "thorough": False}
EXHAUSTIVE_NOTE = {"quick": "all patterns of length <= 10 (88,572)", "thorough": "all patterns of length <= 12 (797,160)"}
ASSUMPTIONS = [
    "q=+1 for K/R, -1 for D/E, 0 otherwise; agreement judged to 1e-9 relative + 1e-12 absolute",
    "anchors: SCD(sv1=(EK)25) = -0.41 and SCD(sv30=E25K25) = -27.84 as published by Sawle & Ghosh (2 decimals)",
]
REQUIRED = {"all": ["salted_objects", "two_charged_residues_at_every_length", "pair_swap_children_of_queried_parents", "texts_with_one_residue_type_in_lower_case", "shuffled_copies_with_large_frozen_regions", "charged_counts_next_to_512_1024", "fewer_than_two_charges", "charged_first_residue", "charged_last_residue", "long_repetitive",
                    "after_other_queries", "anchors", "longer_than_1000", "second_calls"]}
LP = {"quick": 10, "thorough": 12}
NRANDOM = {"quick": 500, "thorough": 5000}
HI = {"quick": 300, "thorough": 400}
SV1 = "EK" * 25
SV30 = "E" * 25 + "K" * 25


def cases(tier, seed):
    yield {"k": "anchor", "s": SV1, "v": -0.41}
    yield {"k": "anchor", "s": SV30, "v": -27.84}
    for s in ["E" * 150, "EK" * 100, "KKG" * 100, "E" * 140 + "K" * 140, "RSED" * 120, "K" * 300, "KGGGGGGGGE",
              "G" * 50 + "K", "K" + "G" * 50, "MGGGK", "KGGGM", "S", "K", "KE", "EK" * 300,
              "KKKKK" + "GS" * 75 + "EEEEE", "K" + "Q" * 120 + "E", "RE" + "VPGVG" * 30 + "DK", "E" + "G" * 99 + "K", "E" + "G" * 100 + "K",
              "DD" + "N" * 101 + "KK" + "S" * 130 + "E", "K" + "P" * 260 + "K"]:
        yield {"k": "seq", "s": s, "pre": 0}
    for w in gen.CODE_WORDS:
        yield {"k": "seq", "s": w, "pre": 0}
    for nc in (127, 128, 129, 130, 255, 256, 257, 385):
        yield {"k": "seq", "s": ("KE" * 200)[:nc], "pre": 0}
        yield {"k": "seq", "s": "".join(c + "G" for c in ("KKE" * 150)[:nc]), "pre": 0}
    for nc in (511, 512, 513, 514, 769, 1023, 1024, 1025):
        # charged-residue counts next to 2^9 and 2^10 (tile / chunk sizes of a vectorised pair sum)
        yield {"k": "seq", "s": ("KE" * 600)[:nc], "pre": 0, "tile": 1}
        if nc in (513, 1025):
            yield {"k": "seq", "s": "G" * 7 + ("KKE" * 400)[:nc - 1] + "GGG" + "D", "pre": 0, "tile": 1}
    # separations beyond 4096 residues (one chain; the library's pair loop needs ~15 s for it)
    if tier == "thorough":
        yield {"k": "seq", "s": "KE" + "G" * 2000 + "D" + "S" * 2197 + "RK", "pre": 0}
    # exactly two charged residues (first and last but one position, and at random positions) at every length 5 .. 260
    rng2 = gen.sub_rng(0, ID, "two_charges")
    for n in range(5, (261 if tier == "quick" else 700)):
        body = ["G"] * n
        i_, j_ = (0, n - 2) if n % 2 else tuple(sorted(rng2.sample(range(n), 2)))
        body[i_], body[j_] = rng2.choice("KR"), rng2.choice("DEKR")
        yield {"k": "seq", "s": "".join(body), "pre": 0, "two": 1}
    # children of a pair swap of a parent that has already answered
    for j in range(24 if tier == "quick" else 200):
        yield {"k": "swapped", "o": j}
    # text typed with ONE residue type in lower case (the constructor upper-cases everything; 'pS' is Pro-Ser)
    for text in ["RRApTVADEK", "GpSGpYKKE", "ApTpSpYEEK", "pSpSpSKKKK", "KKEpSDDpTRR", "RRAPtVADEk", "eEeEkKkK", "GsGsGsKKEE", "mKDEpSGGpYpTR", "pK", "Kp"]:
        yield {"k": "typed", "text": text}
    # objects handed out by get_shuffled_sequence with large frozen regions: the copy's SCD is the sum over the copy's own sequence
    for j, (n, how) in enumerate([(140, "first_half"), (141, "first_half"), (200, "last_half"), (160, "every_other"), (150, "first_quarter")]):
        yield {"k": "shuffled", "n": n, "how": how, "o": j}
    yield {"k": "longs", "lens": [1400, 1050, 1050] if tier == "quick" else [2000, 1400, 1050, 1050, 1200]}
    for L in range(1, LP[tier] + 1):
        for pat in gen.all_patterns(L):
            yield {"k": "pat", "p": M.pat_str(pat)}
    rng = gen.sub_rng(seed, ID)
    for i in range(NRANDOM[tier]):
        yield {"k": "seq", "s": gen.rand_seq(rng, hi=HI[tier] if i % 5 == 0 else 70), "pre": rng.randrange(4),
               "o": rng.randrange(1 << 30)}


def disturb(obj, seq, rng):
    """read-only queries made before the observed one"""
    sty = [i + 1 for i, c in enumerate(seq) if c in "STY"]
    if sty:
        obj.set_phosphosites(rng.sample(sty, min(len(sty), 3)))
        obj.get_kappa_after_phosphorylation()
        obj.get_phosphosequence()
        obj.clear_phosphosites()
    obj.get_kappa()
    if len(seq) >= 5:
        obj.get_linear_NCPR(5)
    obj.get_FCR(pH=0)
    obj.get_delta()


def judge(case, rep, S):
    if case["k"] == "longs":
        # several >= 1000-residue sequences in ONE process, longer first and one repeated: work buffers or
        # caches shared between objects show up as a value that depends on what was analysed before
        rng = gen.sub_rng(0, ID, "longs")
        seqs = {}
        for n in case["lens"]:
            if n not in seqs:
                seqs[n] = gen.rand_seq(rng, "polyampholyte", lo=n, hi=n)[:n]
            s = seqs[n]
            got = S["SP"](s).get_SCD()
            want = M.scd_ref(M.pattern(s))
            rep.cnt("longer_than_1000")
            if not M.close(float(got), want):
                rep.viol("scd_value", "get_SCD of a %d-residue sequence = %r, the Sawle-Ghosh sum gives %r (sequences of lengths %r analysed in this order in one process)" % (
                    n, got, want, case["lens"]), sig={"N": n})
        return
    if case["k"] == "swapped":
        rng = gen.sub_rng(case["o"], ID, "swapped")
        pseq = gen.rand_seq(rng, rng.choice(["polyampholyte", "idp", "titratable"]), lo=6, hi=40)
        par = S["SP"](pseq)
        par.get_SCD()
        cur = par.SeqObj
        for step in range(rng.randint(1, 4)):
            i_, j_ = rng.randrange(len(pseq)), rng.randrange(len(pseq))
            cur = cur.swapRes(i_, j_)
            cobj = S["SP"](SeqObj=cur)
            got, want = cobj.get_SCD(), M.scd_ref(M.pattern(cur.seq))
            rep.cnt("pair_swap_children_of_queried_parents")
            if sorted(cur.seq) != sorted(pseq) or not M.close(float(got), want):
                rep.viol("scd_value", "child %s (step %d, swapRes(%d,%d)) of %s, which had answered get_SCD: get_SCD = %r, its own sequence gives %r" % (
                    cur.seq, step, i_, j_, pseq, got, want), sig={"N": len(pseq), "swap_child": True})
                return
        return
    if case["k"] == "typed":
        text = case["text"]
        seq = "".join(text.upper().split())
        o = S["SP"](text)
        rep.cnt("texts_with_one_residue_type_in_lower_case")
        got, want = o.get_SCD(), M.scd_ref(M.pattern(seq))
        if o.get_sequence() != seq or not M.close(float(got), want):
            rep.viol("scd_value", "SequenceParameters(%r): sequence %r, get_SCD %r; the upper-cased text %s gives %r" % (text, o.get_sequence(), got, seq, want),
                     sig={"N": len(seq), "typed": True})
        return
    if case["k"] == "shuffled":
        rng = gen.sub_rng(case["o"], ID, "shuffled")
        n = case["n"]
        parent_seq = gen.rand_seq(rng, "polyampholyte", lo=n, hi=n)[:n - 20] + "".join(rng.choice("GSTQ") for _ in range(20))
        frozen = {"first_half": list(range(n // 2)), "last_half": list(range(n // 2, n)), "every_other": list(range(0, n, 2)),
                  "first_quarter": list(range(n // 4))}[case["how"]]
        parent = S["SP"](parent_seq)
        for form in (list, set, tuple):
            child = parent.get_shuffled_sequence(form(frozen))
            cseq = child.get_sequence()
            rep.cnt("shuffled_copies_with_large_frozen_regions")
            got = child.get_SCD()
            want = M.scd_ref(M.pattern(cseq))
            if sorted(cseq) != sorted(parent_seq) or not M.close(float(got), want):
                rep.viol("scd_value", "get_SCD of the copy returned by get_shuffled_sequence(%s of %d positions frozen) = %r; its own sequence %s gives %r" % (
                    case["how"], n, got, cseq[:60], want), sig={"N": n, "shuffled_copy": True})
                return
        return
    if case["k"] == "pat":
        pat = M.pat_from_str(case["p"])
        seq = gen.spell(gen.sub_rng(0, ID, case["p"]), pat)
        if len(seq) <= 7 and sum(pat) % 3 == 0:
            case = dict(case, kappa_first=True)
    else:
        seq = case["s"]
        pat = M.pattern(seq)
    obj = SALT.make_object(S, seq, gen.sub_rng(0, "make", seq), rep) if case["k"] == "seq" and len(seq) <= 300 else S["SP"](seq)
    if case.get("pre"):
        r_ = gen.sub_rng(case.get("o", 0), "pre")
        if case["pre"] == 1:
            disturb(obj, seq, r_)
        else:
            SALT.salt(S, obj, seq, r_, rep, cheap=len(seq) > 150)
        rep.cnt("after_other_queries")
    if case.get("kappa_first"):
        obj.get_kappa()                      # delta-max (possibly 0 although charges are present) cached before SCD
        rep.cnt("kappa_before_scd")
    got = obj.get_SCD()
    again = obj.get_SCD()
    rep.cnt("second_calls")
    if not (again == got):
        rep.viol("scd_not_repeatable", "get_SCD() answered %r and then %r on one object (%s)" % (got, again, seq[:80]))
    want = M.scd_ref(pat)
    ncharged = sum(1 for q in pat if q)
    if ncharged >= 2:
        rep.distinct(M.pat_str(pat))
    else:
        rep.cnt("fewer_than_two_charges")
        if got != 0:
            rep.viol("zero_without_pairs", "SCD(%s)=%r with %d charged residue(s)" % (seq, got, ncharged))
    if pat[0]:
        rep.cnt("charged_first_residue")
    if pat[-1]:
        rep.cnt("charged_last_residue")
    if len(seq) >= 150:
        rep.cnt("long_repetitive")
    if case.get("two"):
        rep.cnt("two_charged_residues_at_every_length")
    if case.get("tile"):
        rep.cnt("charged_counts_next_to_512_1024")
    ok = False
    try:
        ok = M.close(float(got), want)
    except Exception:
        pass
    if not ok:
        rep.viol("scd_value", "get_SCD(%s)=%r but the Sawle-Ghosh sum gives %r" % (seq[:300], got, want),
                 sig={"N": len(seq)})
    if case["k"] == "anchor":
        rep.cnt("anchors")
        if round(float(got), 2) != case["v"]:
            rep.viol("published_anchor", "SCD(%s)=%r, published %r" % (seq, got, case["v"]))
    if case["k"] == "seq" and len(seq) <= 120:
        # depends on the sequence only through its charge pattern
        alt = gen.respell(gen.sub_rng(case.get("o", 1), "respell"), seq)
        got2 = S["SP"](alt).get_SCD()
        if not M.close(got, got2):
            rep.viol("charge_pattern_only", "SCD differs between %s (%r) and same-pattern %s (%r)" % (seq, got, alt, got2))
    if rep.evaluations % 2000 == 1:
        rep.sample({"sequence": seq[:120], "get_SCD": got, "reference": want})
