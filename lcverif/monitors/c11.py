"""C11 - complexity profiles: window count, positions, range, locality, WF = entropy.

Oracle: K=floor((N-w)/s)+1 columns; strictly increasing integer positions in
1..N; values in [0,1]; locality - value k equals what the real API returns for
the isolated window seq[k*s:k*s+w] as a sequence of its own; Wootton-Federhen
value = own Shannon entropy of the reduced window to base alphabet-size, 0 for
a homopolymeric reduced window, invariant under permuting the window; unknown
type or window > N rejected.  Several configurations (incl. different user
alphabets) are issued on ONE live object."""
import math

from .. import gen
from .. import refmodel as M
from .. import salt as SALT

ID = "C11"
LEVEL = "exploration"
TECHNIQUE = "runtime monitoring: structural + locality (isolated-window re-execution) + entropy reference oracle on observed complexity profiles"
RULE = ("random sequences of all classes (quick N <= 40, thorough N <= 150) x 8 configurations each on one live object: "
        "type in WF/LC/LZW (any letter case) x 12 predefined alphabet sizes or a random total user alphabet with >= 2 "
        "images x window 1..N x step 1..N x word size 1..6; distinct = distinct (sequence, configuration); "
        "non-trivial = at least 2 windows or a non-zero value")
RULE += ("; added after the mutation rounds: size spelled as string / float; steps >= N; numpy-integer arguments; 600-900-residue low-complexity chains with windows 255..640; one user dictionary edited in place between calls; the first cases of every shard are judged again at its end")
RULE += ("; round 5: user dictionaries with extra non-amino-acid keys mapping to arbitrary values")
RULE += ("; round 7: sequences of 1001 and 1300 residues")
RULE += ("; round 9: predefined and non-predefined sizes next to a user alphabet; one-to-one user alphabets; windows between N and N+1")
EXHAUSTIVE = {"quick": False, "thorough": False}
ASSUMPTIONS = [
    "Wootton-Federhen entropy base = number of letters of the reduced alphabet (predefined: its size; user: number "
    "of distinct images, at least 2 since base-1 entropy is undefined)",
    "locality/permutation/entropy agreement judged to 1e-9 relative + 1e-12 absolute; window 0 / step 0 not driven",
]
REQUIRED = {"all": ["salted_objects", "type:WF", "type:LC", "type:LZW", "user_alphabets", "user_alphabet_switch_same_object",
                    "step_gt_1_partial_tail", "locality_windows", "wf_entropy_windows", "rejected_unknown_type",
                    "rejected_long_window", "homopolymer_windows", "step_ge_N", "numpy_int_arguments", "windows_ge_255", "user_alphabets_with_extra_keys", "longer_than_1000", "one_to_one_user_alphabets", "rejected_fractional_window_beyond_N"]}
SIZES = [2, 3, 4, 5, 6, 8, 10, 11, 12, 15, 18, 20]
NSEQ = {"quick": 1000, "thorough": 8000}
HI = {"quick": 40, "thorough": 150}


def cases(tier, seed):
    rng = gen.sub_rng(seed, ID)
    for n, letters in ((900, "QQQQQN"), (700, "GS"), (600, "KKKKE"), (1001, "ACDEFGHIKLMNPQRSTVWY"), (1300, "GSQN")):
        yield {"s": "".join(rng.choice(letters) for _ in range(n)), "o": rng.randrange(1 << 30), "long": True}
    for i in range(NSEQ[tier]):
        cls = "lowcomplexity" if i % 5 == 0 else None
        yield {"s": gen.rand_seq(rng, cls, lo=1, hi=HI[tier] if i % 3 else 25), "o": rng.randrange(1 << 30)}


def user_alphabet(rng):
    if rng.random() < 0.12:
        letters = list(M.AA)
        rng.shuffle(letters)
        _forms[2] += 1
        return dict(zip(M.AA, letters)) if rng.random() < 0.7 else {a: a for a in M.AA}       # a relabelling / the identity
    images = rng.sample(list(M.AA), rng.randint(2, 7))
    while True:
        ua = {a: rng.choice(images) for a in M.AA}
        if len(set(ua.values())) >= 2:
            if rng.random() < 0.25:
                # entries for keys that are not amino acids (ambiguity codes, gap, lower case) cannot occur in a sequence and
                # take no part in the alphabet, whatever they map to
                for extra in rng.sample(["B", "Z", "X", "U", "-", "a", "k", "*"], rng.randint(1, 3)):
                    ua[extra] = rng.choice([extra, "X", "B", "-", rng.choice(list(M.AA))])
                _forms[1] += 1
            return ua


def reduce_ref(seq, size, ua):
    """Group label per residue (entropy needs the partition only, not the representatives)."""
    if ua is not None:
        return [ua[c] for c in seq], len(set(ua[a] for a in M.AA))
    return [M.alphabet_group(size, c) for c in seq], size


def call(obj, t, size, ua, w, s, ws, rng):
    kw = dict(complexityType=t, blobLen=w, stepSize=s, wordSize=ws)
    if ua is not None:
        kw["userAlphabet"] = ua
        if rng.random() < 0.5:
            # documented: the size is ignored when a user alphabet is given - whatever it is
            kw["alphabetSize"] = rng.choice(SIZES + [7, 9, 13, 0, 1, 19, len(set(ua[a] for a in M.AA))])
    else:
        kw["alphabetSize"] = size
        if rng.random() < 0.12:
            # documented: the size may be a number or a string that converts to an integer
            kw["alphabetSize"] = rng.choice([str(size), float(size), " %d" % size])
            _forms[0] += 1
    return obj.get_linear_complexity(**kw)


_forms = [0, 0, 0]


def judge(case, rep, S):
    np = S["np"]
    SP = S["SP"]
    seq = case["s"]
    if rep.counters.get("size_spelled_as_string_or_float", 0) < _forms[0]:
        rep.cnt("size_spelled_as_string_or_float", _forms[0] - rep.counters.get("size_spelled_as_string_or_float", 0))
    if rep.counters.get("one_to_one_user_alphabets", 0) < _forms[2]:
        rep.cnt("one_to_one_user_alphabets", _forms[2] - rep.counters.get("one_to_one_user_alphabets", 0))
    if rep.counters.get("user_alphabets_with_extra_keys", 0) < _forms[1]:
        rep.cnt("user_alphabets_with_extra_keys", _forms[1] - rep.counters.get("user_alphabets_with_extra_keys", 0))
    N = len(seq)
    if N > 1000:
        rep.cnt("longer_than_1000")
    rng = gen.sub_rng(case["o"], ID)
    obj = SP(seq)
    if rng.random() < 0.2:
        SALT.salt(S, obj, seq, rng, rep, cheap=N > 100)
    prev_user = False
    shared_ua = None
    for cfg in range(8):
        t = rng.choice(["WF", "LC", "LZW"])
        tspell = t if rng.random() < 0.6 else rng.choice([t.lower(), t.capitalize()])
        ua = user_alphabet(rng) if rng.random() < 0.35 else None
        if ua is not None and rng.random() < 0.4:
            # the caller keeps ONE dictionary and edits it in place between calls
            if shared_ua is None:
                shared_ua = ua
            else:
                shared_ua.clear()
                shared_ua.update(ua)
                rep.cnt("user_alphabet_edited_in_place")
            ua = shared_ua
        size = rng.choice(SIZES)
        w = rng.randint(1, N) if rng.random() < 0.8 else rng.choice([1, N, min(N, 10), max(1, N - 1)])
        if case.get("long"):
            w = rng.choice([x for x in (255, 256, 257, 300, 400, 512, 640, N) if x <= N])
            rep.cnt("windows_ge_255")
        s = rng.randint(1, N) if rng.random() < 0.5 else rng.choice([1, 1, 2, 3])
        ws = 3 if rng.random() < 0.5 else rng.randint(1, 6)
        if rng.random() < 0.08:
            s = rng.choice([N, N + 3, 10 * N])                 # step as long as / longer than the sequence: one window
            rep.cnt("step_ge_N")
        if rng.random() < 0.1:
            w, s = np.int64(w), np.int64(s)
            rep.cnt("numpy_int_arguments")
        desc = {"type": tspell, "size": None if ua else size, "user": ua, "w": w, "s": s, "word": ws}
        try:
            arr = call(obj, tspell, size, ua, w, s, ws, rng)
        except Exception as e:
            rep.viol("raised", "get_linear_complexity(%r) raised %s: %s on %s" % (desc, type(e).__name__, e, seq), sig={"type": t})
            continue
        rep.cnt("type:" + t)
        if ua is not None:
            rep.cnt("user_alphabets")
            if prev_user:
                rep.cnt("user_alphabet_switch_same_object")
            prev_user = True
        a = np.asarray(arr, dtype=float)
        w, s = int(w), int(s)
        K = (N - w) // s + 1
        if s > 1 and (N - w) % s != 0:
            rep.cnt("step_gt_1_partial_tail")
        if a.ndim != 2 or a.shape != (2, K):
            rep.viol("window_count", "%r on %s (N=%d): shape %r, expected (2, %d)" % (desc, seq, N, a.shape, K), sig={"type": t})
            continue
        pos = list(a[0])
        vals = list(a[1])
        if K >= 2 or any(v != 0 for v in vals):
            rep.distinct((seq, t, size if ua is None else tuple(sorted(ua.items())), w, s, ws))
        if any(p != int(p) for p in pos) or any(b <= a_ for a_, b in zip(pos, pos[1:])) or pos[0] < 1 or pos[-1] > N:
            rep.viol("positions", "%r on %s (N=%d): positions %r" % (desc, seq, N, pos[:20]), sig={"type": t})
        if any(not (-1e-12 <= v <= 1 + 1e-12) for v in vals):
            rep.viol("range", "%r on %s: values outside [0,1]: %r" % (desc, seq, vals[:20]), sig={"type": t})
        # locality + WF entropy on a few windows (first, last, random)
        ks = sorted(set([0, K - 1] + [rng.randrange(K) for _ in range(2)]))
        for k in ks:
            win = seq[k * s:k * s + w]
            try:
                iso = call(SP(win), t, size, ua, w, 1, ws, rng)
                iso_v = float(np.asarray(iso, dtype=float)[1][0])
            except Exception as e:
                rep.viol("locality", "isolated window %s of %s: %r raised %s: %s" % (win, seq, desc, type(e).__name__, e), sig={"type": t})
                continue
            rep.cnt("locality_windows")
            if not M.close(vals[k], iso_v):
                rep.viol("locality", "%r on %s: window %d (%s) has value %r inside the profile but %r as a sequence of its own" % (
                    desc, seq, k, win, vals[k], iso_v), sig={"type": t})
            if t == "WF":
                labels, base = reduce_ref(win, size, ua)
                cnts = {}
                for lab in labels:
                    cnts[lab] = cnts.get(lab, 0) + 1
                want = M.shannon(list(cnts.values()), base)
                rep.cnt("wf_entropy_windows")
                if len(cnts) == 1:
                    rep.cnt("homopolymer_windows")
                    if vals[k] != 0:
                        rep.viol("wf_homopolymer", "%r on %s: homopolymeric reduced window %s has WF %r" % (desc, seq, win, vals[k]))
                if not M.close(vals[k], want):
                    rep.viol("wf_entropy", "%r on %s: window %d (%s) WF=%r but the Shannon entropy to base %d of its reduced composition %r is %r" % (
                        desc, seq, k, win, vals[k], base, sorted(cnts.values()), want), sig={"size": None if ua else size, "user": ua is not None})
                perm = gen.permute(rng, win)
                try:
                    pv = float(np.asarray(call(SP(perm), t, size, ua, w, 1, ws, rng), dtype=float)[1][0])
                    if not M.close(pv, vals[k]):
                        rep.viol("wf_permutation", "%r: WF of %s is %r but of its permutation %s is %r" % (desc, win, vals[k], perm, pv))
                except Exception as e:
                    rep.viol("wf_permutation", "permuted window raised %s" % e)
        if rep.evaluations % 60 == 1 and cfg == 0:
            rep.sample({"sequence": seq, "config": desc, "positions": pos[:10], "values": vals[:10]})
    # rejections
    bad_t = rng.choice(["XX", "W", "WFF", "", "ENTROPY", "RHP", None, 3, "LZ", "L C"])
    try:
        r = obj.get_linear_complexity(complexityType=bad_t, blobLen=min(N, 3))
    except Exception:
        rep.cnt("rejected_unknown_type")
    else:
        rep.viol("unknown_type_accepted", "complexity type %r accepted on %s: %r" % (bad_t, seq, r))
    if N < 10:
        # the documented default window is 10: longer than this sequence, so the default call is rejected as well
        for t in ("WF", "LC", "LZW"):
            for form in ("default", "explicit"):
                try:
                    r = obj.get_linear_complexity(complexityType=t) if form == "default" else obj.get_linear_complexity(t, 20, {}, 10)
                except Exception:
                    rep.cnt("rejected_long_window")
                else:
                    rep.viol("long_window_accepted", "%s with the %s window 10 on %s (N=%d) answered %r" % (t, form, seq, N, np.asarray(r).tolist()), sig={"type": t})
    for t in ("WF", "LC", "LZW"):
        # a window between N and N+1 is longer than the sequence too
        wf_ = N + rng.choice([0.5, 0.999, 0.001, 0.25])
        try:
            r = obj.get_linear_complexity(complexityType=t, blobLen=rng.choice([wf_, np.float64(wf_)]))
        except Exception:
            rep.cnt("rejected_long_window")
            rep.cnt("rejected_fractional_window_beyond_N")
        else:
            rep.viol("long_window_accepted", "%s with window %r on %s (N=%d) answered %r" % (t, wf_, seq, N, np.asarray(r).tolist()), sig={"type": t, "fractional": True})
    for t in ("WF", "LC", "LZW"):
        w = N + rng.choice([1, 1, 2, 5, 10, N, 10 * N])
        try:
            r = obj.get_linear_complexity(complexityType=t, blobLen=w, stepSize=rng.choice([1, 2, 3, 7, N + 1, 2 * w]))
        except Exception:
            rep.cnt("rejected_long_window")
        else:
            rep.viol("long_window_accepted", "%s with window %d on %s (N=%d) answered %r" % (t, w, seq, N, np.asarray(r).tolist()), sig={"type": t})
