"""C09 - pH-dependent charge follows Henderson-Hasselbalch; pI neutralises the chain.

Oracle: own Henderson-Hasselbalch sums at the documented EMBOSS pKa values;
trace checker over a pH sweep on one live object (values vs reference,
monotonic NCPR, bounds); acceptance/rejection of pH by the range [0,14];
bounded-progress monitor (sys.monitoring LINE budget inside the library's
isoelectric_point code object) and reference neutrality check for the pI.  The
sweep is issued in random order with the pI query in its middle and the pI then
re-used as a pH, so per-object memoisation errors are seen."""
import sys

from .. import gen
from .. import refmodel as M
from .. import salt as SALT

ID = "C09"
LEVEL = "exploration"
TECHNIQUE = ("runtime monitoring: reference-model oracle + trace checker (monotonicity, bounds) over recorded pH sweeps; "
             "logical-step progress budget (sys.monitoring) on the pI search")
RULE = ("special compositions (only K / R / H / D,E / C,Y, no titratable residue, single residues, 1 R + many D, ...) "
        "and random sequences of all classes (quick <= 150, thorough <= 400) x a sweep of ~40 (thorough 90) pH values "
        "in random order including 0, 0.0, -0.0, 14, 14.0, ints and the returned pI, plus ~16 out-of-range values; "
        "distinct = distinct (titratable-residue multiset, length); non-trivial = at least one titratable residue")
RULE += ("; added after the mutation rounds: numpy float64 / int64 pH values; ordered groups of sequences (poly-R before non-titrating ones) with 15 repeated pI calls per object; history salt incl. phosphosites left set; the first cases of every shard are judged again at its end")
RULE += ("; round 8: an isoelectric point beyond the scale handed back as pH (must be rejected)")
RULE += ("; round 10: a single titratable residue in an inert chain at every length 2-260 (thorough 700)")
EXHAUSTIVE = {"quick": False, "thorough": False}
ASSUMPTIONS = [
    "documented pKa: C 8.5, Y 10.1, H 6.5, E 4.1, D 3.9, K 10.0, R 12.5; positive K,R,H; negative D,E,C,Y",
    "values agree to 1e-9 relative + 1e-12 absolute; monotonicity slack 1e-12; pI neutrality |q| <= 0.02 + 1e-12 on "
    "the reference mean charge per titratable residue",
    "pH is given as Python int/float or numpy float64/int64; lower-precision numpy types (float32/float16) are not "
    "driven: their results carry that precision, about which the statement says nothing",
    "termination of the pI search is restated as bounded progress: at most 100000 line events inside the library's "
    "isoelectric_point function per call; NaN / non-numeric pH is not judged (statement speaks of values outside [0,14])",
]
REQUIRED = {"all": ["salted_objects", "sweep_points", "pH_zero_points", "pH_fourteen_points", "rejected_out_of_range", "rejected_nearest_neighbours_of_0_and_14", "pI_calls",
                    "pI_outside_0_14", "pI_nothing_titrates", "pI_reused_as_pH", "pI_beyond_scale_reused_as_pH", "one_titratable_residue_at_every_length", "numpy_pH_values", "ordered_multi_object_pI"]}
NRANDOM = {"quick": 1200, "thorough": 6000}
NPH = {"quick": 40, "thorough": 90}
HI = {"quick": 150, "thorough": 400}
SPECIAL = ["RG" * 15, "GRGRGRGRGK", "PR" * 20, "GGGGR" * 12, "Q" * 60 + "K", "GS" * 40 + "H", "GS" * 40 + "D", "Q" * 239 + "K",
           "SYGQQSSYGQQSSYGQQSSYGQQSSYGQQSDSYGQQSSYGQQSSYGQQSSYGQQSSYGQQSSYGQQD", "N" * 80 + "C", "G" * 70 + "Y", "A" * 90 + "E",
           "K", "R", "H", "D", "E", "C", "Y", "G", "KKKKKKKKKK", "RRRRRRRRRR", "HHHHHH", "DDDDEEEE", "CCCYYY",
           "GSGSGSAAPPLLVV", "R" + "D" * 400, "K" + "E" * 60, "D" + "R" * 200, "GHGYGHGCGH", "GSCGSC", "EEEEEEEEEE",
           "RRRRRRRRRRRRRRRRRRRRRRRRRRRRRRG", "RK" * 30, "Y" * 30, "C" * 30, "HC" * 20, "KRHDECY" * 5, "RRRRRD",
           "MDVFMKGLSKAKEGVVAAAEKTKQGVAEAAGKTKEGVLYVGSKTKEGVVHGVATVAEKTKEQVTNVGGAVVTGVTAVAQKTVEGAGSIAAATGFVKKDQLGKNEEGAPQEGILEDMPVDPDNEAYEMPSEEGYQDYEPEA"]
EDGE_PH = [-5e-324, -1e-300, -1e-17, -4.4e-16, 14.000000000000002, 14.000000000000004]
BAD_PH = [-1e-9, -0.001, -1, -1.0, -100, 14.000001, 14.5, 15, 100.0, 1e6, -7, 14 + 1e-9, float("inf"), float("-inf")]
LINE_BUDGET = 100000


class BudgetExceeded(BaseException):
    pass


_mon = {"tool": None, "count": 0, "code": None}


_tier = ["quick"]


def setup(S, tier, seed):
    _tier[0] = tier
    f = S["Sequence"].isoelectric_point
    while hasattr(f, "__wrapped__"):
        f = f.__wrapped__
    code = f.__code__
    mon = sys.monitoring
    tool = mon.PROFILER_ID
    try:
        mon.use_tool_id(tool, "lcverif-c09")
    except ValueError:
        pass

    def on_line(c, line):
        _mon["count"] += 1
        if _mon["count"] > LINE_BUDGET:
            raise BudgetExceeded("more than %d line events in isoelectric_point" % LINE_BUDGET)
    mon.register_callback(tool, mon.events.LINE, on_line)
    mon.set_local_events(tool, code, mon.events.LINE)
    _mon.update(tool=tool, code=code)


def teardown(S):
    if _mon["tool"] is not None:
        sys.monitoring.set_local_events(_mon["tool"], _mon["code"], 0)
        sys.monitoring.free_tool_id(_mon["tool"])


def cases(tier, seed):
    rng = gen.sub_rng(seed, ID)
    for s in SPECIAL:
        yield {"s": s, "o": rng.randrange(1 << 30)}
    for chain in (["RRRRRRRR", "GSGSGSGSGS", "AQNLMFW", "G"], ["GRRRGRRRKG", "G", "EEEE", "GSGS"], ["DDDDDDDD", "GSGSGS", "RRRR", "AAAA"]):
        yield {"chain": chain, "o": rng.randrange(1 << 30)}
    # a single titratable residue in an otherwise inert chain, at every length 2 .. 260 (thorough 700)
    r1 = gen.sub_rng(0, ID, "one_titratable")
    for n in range(2, 261 if tier == "quick" else 701):
        body = [r1.choice("GSQN")] * n
        body[r1.randrange(n)] = r1.choice("KRHDECY")
        yield {"s": "".join(body), "o": r1.randrange(1 << 30), "one": 1}
    for i in range(NRANDOM[tier]):
        cls = "titratable" if i % 3 == 0 else None
        yield {"s": gen.rand_seq(rng, cls, hi=HI[tier] if i % 4 == 0 else 50), "o": rng.randrange(1 << 30)}


def judge(case, rep, S):
    if case.get("one"):
        rep.cnt("one_titratable_residue_at_every_length")
    if "chain" in case:
        # the pI of one object must not depend on which other objects were analysed before it in the same process
        for s in case["chain"]:
            rep.cnt("ordered_multi_object_pI")
            o = S["SP"](s)
            first = None
            for rep_i in range(15):                       # the same query many times on one object
                v = judge_pi(rep, o, s, sum(1 for c in s if c in M.TITR_POS + M.TITR_NEG))
                if v is None:
                    break
                if first is None:
                    first = v
                elif v != first:
                    rep.viol("pI_not_repeatable", "get_isoelectric_point answered %r and then %r (call %d) on %s" % (first, v, rep_i + 1, s))
                    break
            rep.cnt("repeated_pI_calls", 15)
        return
    seq = case["s"]
    N = len(seq)
    rng = gen.sub_rng(case["o"], ID)
    obj = S["SP"](seq)
    if rng.random() < 0.3:
        SALT.salt(S, obj, seq, rng, rep, cheap=N > 100)
    ntit = sum(1 for c in seq if c in M.TITR_POS + M.TITR_NEG)
    fp = seq.count("P") / N
    if ntit:
        rep.distinct((tuple(sorted((c, seq.count(c)) for c in M.TITR_POS + M.TITR_NEG)), N))
    tier_n = NPH.get(_tier[0], 40)
    phs = [0, 0.0, -0.0, 14, 14.0, 7, 7.4, 1, 13] + [rng.uniform(0, 14) for _ in range(tier_n - 14)] + \
          [M.PKA[k] for k in ("H", "K", "E")] + [round(rng.uniform(0, 14), 1), rng.randint(0, 14)]
    np = S["np"]
    phs += [np.float64(rng.uniform(0, 14)), np.int64(rng.randint(0, 14)), np.float64(rng.randint(0, 28) / 2.0), np.float64(0.0), np.int64(14)]
    rep.cnt("numpy_pH_values", 5)
    rng.shuffle(phs)
    pi_at = rng.randrange(len(phs))
    trace = []          # (pH, ncpr) for the monotonicity checker
    pI = None

    def point(pH, tag=""):
        getters = [("NCPR", obj.get_NCPR), ("FCR", obj.get_FCR), ("mean_net_charge", obj.get_mean_net_charge),
                   ("fraction_expanding", obj.get_fraction_expanding)]
        rng.shuffle(getters)
        vals = {}
        for name, g in getters:
            try:
                vals[name] = g(pH=pH) if rng.random() < 0.5 else g(pH)
            except Exception as e:
                rep.viol("rejected_in_range", "%s(pH=%r) raised %s on %s" % (name, pH, type(e).__name__, seq[:60]),
                         sig={"getter": name, "pH": repr(pH)})
                return
        net, tot = M.hh_charges(seq, float(pH))
        want = {"NCPR": net / N, "FCR": tot / N, "mean_net_charge": abs(net) / N, "fraction_expanding": tot / N + fp}
        rep.cnt("sweep_points")
        if pH == 0:
            rep.cnt("pH_zero_points")
        if pH == 14:
            rep.cnt("pH_fourteen_points")
        for name in want:
            if not M.close(vals[name], want[name]):
                rep.viol("hh_value:" + name, "%s(pH=%r)=%r on %s but Henderson-Hasselbalch gives %r%s" % (
                    name, pH, vals[name], seq[:60], want[name], tag), sig={"getter": name, "pH_is_zero": pH == 0})
        try:
            if not (abs(vals["NCPR"]) <= vals["FCR"] + 1e-12 and vals["FCR"] <= ntit / N + 1e-12):
                rep.viol("bounds", "|NCPR|<=FCR<=titratable/N fails at pH %r on %s: %r (titratable/N=%r)" % (pH, seq[:60], vals, ntit / N))
        except Exception:
            pass
        trace.append((float(pH), vals["NCPR"]))

    for i, pH in enumerate(phs):
        if i == pi_at:
            pI = judge_pi(rep, obj, seq, ntit)
            if pI is not None and 0 <= pI <= 14:
                rep.cnt("pI_reused_as_pH")
                point(pI, " (pH = the pI this object returned before)")
            elif pI is not None and (pI > 14 or pI < 0):
                # a pI beyond the scale is a legal answer of the search; as a pH it is out of range like any other value
                rep.cnt("pI_beyond_scale_reused_as_pH")
                for nm_ in ("get_NCPR", "get_mean_net_charge", "get_FCR", "get_fraction_expanding"):
                    try:
                        r_ = getattr(obj, nm_)(pH=pI) if nm_ != "get_NCPR" else obj.get_NCPR(pI)
                    except Exception:
                        rep.cnt("rejected_out_of_range")
                    else:
                        rep.viol("accepted_out_of_range", "%s(pH=%r) - the isoelectric point this object returned before - was answered with %r on %s" % (
                            nm_, pI, r_, seq[:60]), sig={"getter": nm_, "pH_is_own_pI": True})
        point(pH)
    # trace checker: NCPR(pH) never increases with pH
    trace.sort(key=lambda t: t[0])
    for (p1, v1), (p2, v2) in zip(trace, trace[1:]):
        try:
            if p2 > p1 and v2 > v1 + 1e-12:
                rep.viol("monotonic", "NCPR rises from %r at pH %r to %r at pH %r on %s" % (v1, p1, v2, p2, seq[:60]))
                break
        except Exception:
            pass
    # values outside [0,14] are rejected by all four getters
    for bad in rng.sample(BAD_PH, 4):
        name, g = rng.choice([("NCPR", obj.get_NCPR), ("FCR", obj.get_FCR), ("mean_net_charge", obj.get_mean_net_charge),
                              ("fraction_expanding", obj.get_fraction_expanding)])
        try:
            r = g(pH=bad) if rng.random() < 0.5 else g(bad)          # keyword and positional call forms
        except Exception:
            rep.cnt("rejected_out_of_range")
        else:
            rep.viol("accepted_out_of_range", "%s(pH=%r) returned %r on %s" % (name, bad, r, seq[:60]),
                     sig={"getter": name, "pH": repr(bad)})
    # the nearest neighbours of the two ends: the smallest negative numbers and the first floats above 14 (a range test written
    # as |pH - 7| > 7 rounds them onto the boundary); every getter, no random choice
    for bad in EDGE_PH:
        for name, g in (("NCPR", obj.get_NCPR), ("FCR", obj.get_FCR), ("mean_net_charge", obj.get_mean_net_charge),
                        ("fraction_expanding", obj.get_fraction_expanding)):
            try:
                r = g(pH=bad)
            except Exception:
                rep.cnt("rejected_nearest_neighbours_of_0_and_14")
            else:
                rep.viol("accepted_out_of_range", "%s(pH=%r) returned %r on %s" % (name, bad, r, seq[:60]),
                         sig={"getter": name, "pH": repr(bad)})
    if rep.evaluations % 60 == 1:
        rep.sample({"sequence": seq[:80], "pI": pI, "sweep": [[p, v] for p, v in trace[:6]]})


def judge_pi(rep, obj, seq, ntit):
    rep.cnt("pI_calls")
    _mon["count"] = 0
    try:
        pI = obj.get_isoelectric_point()
    except BudgetExceeded as e:
        rep.viol("pI_no_progress", "get_isoelectric_point did not finish within the step budget on %s: %s" % (seq[:80], e))
        return None
    except Exception as e:
        rep.viol("pI_raised", "get_isoelectric_point raised %s: %s on %s" % (type(e).__name__, e, seq[:80]))
        return None
    rep.cnt("pI_line_events", _mon["count"])
    try:
        pIf = float(pI)
    except Exception:
        rep.viol("pI_value", "get_isoelectric_point returned %r on %s" % (pI, seq[:80]))
        return None
    if ntit == 0:
        rep.cnt("pI_nothing_titrates")
        if pIf != 7.0:
            rep.viol("pI_value", "nothing titrates in %s but pI=%r (expected 7.0)" % (seq[:80], pI))
        return pIf
    if not (0 <= pIf <= 14):
        rep.cnt("pI_outside_0_14")
    net, _ = M.hh_charges(seq, pIf)
    q = net / ntit
    if not abs(q) <= 0.02 + 1e-12:
        rep.viol("pI_not_neutral", "pI=%r on %s but the mean charge per titratable residue there is %r" % (pI, seq[:80], q),
                 sig={"has_KRDE": any(c in "KRDE" for c in seq)})
    return pIf
