"""C19 - plots place sequences at true coordinates in the regions that classify them.

Observed: every entry point (object methods and the plots module, show with
getFig=True and save) under the Agg backend on a clean canvas; for save_* the
pyplot.savefig call is intercepted so the figure is inspected at the moment it
is written, and the file must exist and be non-empty.  Oracle: matplotlib artist
inspection - scatter offsets equal the requested coordinates, one marker per
sequence, annotation texts equal the requested labels, title and axis limits as
requested, five (two) region polygons; the drawn polygons (exact rationals)
contain each composition's point in the closed polygon of the region
get_phasePlotRegion assigns and in the open interior of no other; linear plots
draw one bar per residue (per window) with the heights of the get_linear_* profile."""
import os
import shutil
import tempfile
from fractions import Fraction

from .. import gen
from .. import refmodel as M

ID = "C19"
LEVEL = "exploration"
TECHNIQUE = ("runtime monitoring: matplotlib artist inspection of the figures actually produced (savefig intercepted), "
             "exact point-in-polygon check of the drawn regions against get_phasePlotRegion over an exhaustive "
             "composition space")
RULE = ("random sequences / coordinate lists x 28 entry points (object methods and plots module; show with getFig, save "
        "as png/pdf) x argument combinations (label or not, title, legend, x/y limits in {1,0.5,0.8,2}, font size); "
        "region agreement: every composition (n+,n-,N) with N <= Nmax (quick 40, thorough 90) against the polygons drawn "
        "under 4 limit settings; linear plots on sequences up to 320 residues; distinct = distinct (entry point, "
        "arguments, data); non-trivial = all")
RULE += ("; added after the mutation rounds: near-threshold compositions for N up to 260 (400) and 300..1000; numpy / tuple coordinate containers; coincident markers with different labels; non-ASCII labels and titles; file names with blanks / non-ASCII letters; no closing of figures between consecutive save calls; the first cases of every shard are judged again at its end")
RULE += ("; round 5: label lists in which some entries are empty")
RULE += ("; round 6: axis limits 0.35, 0.3, 0.1 (regions partly or wholly outside the view); homopolymers of every length 1-45 at the corners of both diagrams")
RULE += ("; round 7: all documented arguments given positionally; label lists with a repeated name; complexity plots with word sizes 1, 2, 4")
RULE += ("; round 8: axis limits just below a multiple of 0.1 (0.395, 0.995, 0.299); linear plots of objects with phosphosites set; an unlabelled plot after a labelled one on the same object")
RULE += ("; round 9: an axis limit within 0.01 above the marker of a labelled plot; a 130-character label")
RULE += ("; round 10: '$', '%', '#', '&', '_', '^', braces in titles and labels")
EXHAUSTIVE = {"quick": False, "thorough": False}
EXHAUSTIVE_NOTE = {"quick": "region agreement: all (n+,n-,N) with N <= 40 under 4 limit settings",
                   "thorough": "region agreement: all (n+,n-,N) with N <= 90 under 4 limit settings"}
ASSUMPTIONS = [
    "a marker is a scatter offset; a label is an annotation text; 'the figure' returned with getFig is the pyplot handle the "
    "library hands out, and the current figure is what is inspected",
    "polygon vertices are read as exact rationals with denominator <= 1000 (they are drawn from 3-decimal literals)",
    "file format and pixel content are not judged (not in the statement); the spline composition plot is only required not to raise",
]
REQUIRED = {"all": ["figures", "saved_files", "getfig_returns", "phase_markers_checked", "uversky_markers_checked",
                    "multi_marker_figures", "labels_checked", "label_lists_with_some_empty_entries", "limits_below_one", "region_points_checked",
                    "linear_bar_figures", "long_linear_plots", "net_negative_uversky_saves", "complexity_bar_figures", "numpy_coordinate_arguments", "coincident_markers", "near_threshold_large_N_cases", "figures_after_unclosed_save", "tiny_linear_plots", "homopolymer_figures", "homopolymer_corner_figures", "all_arguments_given_positionally", "label_lists_with_repeated_names", "complexity_plots_with_another_word_size",
                    "unlabelled_plot_after_a_labelled_one_on_the_same_object", "linear_plots_of_objects_with_phosphosites", "limits_a_hair_above_the_marker"]}
NFIG = {"quick": 640, "thorough": 4000}
NMAX = {"quick": 40, "thorough": 90}
LIMS = [1, 1, 0.5, 0.8, 2, 0.35, 0.3, 0.1, 0.395, 0.995, 0.299, 1.25, 0.999, 0.55]

_st = {}


def setup(S, tier, seed):
    import matplotlib
    import matplotlib.pyplot as plt
    _st["plt"] = plt
    _st["tmp"] = tempfile.mkdtemp(prefix="lcverif_c19_")
    _st["tier"] = tier
    _st["orig_savefig"] = plt.savefig
    _st["saved"] = []

    def savefig(*a, **k):
        fig = plt.gcf()
        _st["saved"].append({"snap": snapshot(fig), "args": a, "kwargs": k})
        return _st["orig_savefig"](*a, **k)
    plt.savefig = savefig


def teardown(S):
    _st["plt"].savefig = _st["orig_savefig"]
    _st["plt"].close("all")
    shutil.rmtree(_st["tmp"], ignore_errors=True)


def snapshot(fig):
    from matplotlib.patches import Polygon, Rectangle
    out = {"naxes": len(fig.axes)}
    if not fig.axes:
        return out
    ax = fig.axes[0]
    offs = []
    for c in ax.collections:
        try:
            offs.extend([tuple(map(float, o)) for o in c.get_offsets()])
        except Exception:
            pass
    out["offsets"] = offs
    out["texts"] = [t.get_text() for t in ax.texts]
    out["title"] = ax.get_title()
    out["xlim"] = tuple(map(float, ax.get_xlim()))
    out["ylim"] = tuple(map(float, ax.get_ylim()))
    out["polygons"] = [[tuple(map(float, v)) for v in p.get_xy()] for p in ax.patches if isinstance(p, Polygon)]
    out["bars"] = [(float(p.get_x() + p.get_width() / 2.0), float(p.get_height())) for p in ax.patches if isinstance(p, Rectangle)]
    return out


# ---- exact geometry -------------------------------------------------------
def rat(x):
    return Fraction(x).limit_denominator(1000)


def poly_exact(verts):
    pts = [(rat(x), rat(y)) for x, y in verts]
    if len(pts) > 1 and pts[0] == pts[-1]:
        pts = pts[:-1]
    return pts


def locate(pt, poly):
    """'in' (open interior), 'on' (boundary) or 'out' for a convex or simple polygon; exact."""
    x, y = pt
    n = len(poly)
    inside = False
    for i in range(n):
        x1, y1 = poly[i]
        x2, y2 = poly[(i + 1) % n]
        cross = (x2 - x1) * (y - y1) - (y2 - y1) * (x - x1)
        if cross == 0 and min(x1, x2) <= x <= max(x1, x2) and min(y1, y2) <= y <= max(y1, y2):
            return "on"
        if (y1 > y) != (y2 > y):
            xin = x1 + (y - y1) * (x2 - x1) / (y2 - y1)
            if x < xin:
                inside = not inside
    return "in" if inside else "out"


# ---- workload ---------------------------------------------------------------
def cases(tier, seed):
    for N in range(1, NMAX[tier] + 1):
        yield {"k": "regions", "N": N}
    for N in list(range(NMAX[tier] + 1, 261 if tier == "quick" else 401)) + [300, 340, 360, 400, 660, 700, 1000]:
        yield {"k": "regions", "N": N, "near": True}
    for letter in "IRDG":
        yield {"k": "corners", "letter": letter}
    rng = gen.sub_rng(seed, ID)
    for i in range(NFIG[tier]):
        yield {"k": "fig", "o": rng.randrange(1 << 30), "i": i}


def fresh_canvas(force=False):
    """A user closes the figure a show(getFig=True) call handed out; after a save_* call the library itself has
    finished with its figure, so nothing is closed for it: what it left behind would show up in the next figure."""
    if force or _st.get("last_was_show", True):
        _st["plt"].close("all")
    _st["saved"][:] = []


def judge_corners(case, rep, S):
    """Homopolymers of every length 1..45: the corners of both diagrams (a running sum may land one ulp outside [0,1])."""
    SP = S["SP"]
    for N in range(1, 46):
        seq = case["letter"] * N
        f = SP(seq)
        o = SP(seq)
        for kind in ("uversky", "phase"):
            if kind == "uversky":
                coords = [(f.get_mean_net_charge(), f.get_uversky_hydropathy())]
                show = o.show_uverskyPlot
            else:
                coords = [(f.get_fraction_positive(), f.get_fraction_negative())]
                show = o.show_phaseDiagramPlot
            snap = run_entry(rep, S, show.__name__, lambda: show(getFig=True), None)
            rep.cnt("homopolymer_corner_figures")
            if not snap:
                return
            check_scatter(rep, snap, kind, show.__name__, coords, None, {}, False)


def judge(case, rep, S):
    if case["k"] == "regions":
        judge_regions(case, rep, S)
    elif case["k"] == "corners":
        judge_corners(case, rep, S)
    else:
        judge_figure(case, rep, S)


def judge_regions(case, rep, S):
    SP = S["SP"]
    plt = _st["plt"]
    N = case["N"]
    rng = gen.sub_rng(0, ID, "regions", N)
    polysets = []
    for lim in [(1, 1), (0.5, 0.5), (0.8, 2), (2, 0.6), (0.3, 1), (1, 0.35), (0.25, 0.25), (0.1, 3), (0.395, 0.995)]:
        fresh_canvas(force=True)
        o = SP("G" * N)
        ret = o.show_phaseDiagramPlot(xLim=lim[0], yLim=lim[1], getFig=True)
        rep.cnt("figures")
        snap = snapshot(plt.gcf())
        if len(snap.get("polygons", [])) != 5:
            rep.viol("region_polygons", "diagram of states drew %d polygons (limits %r)" % (len(snap.get("polygons", [])), lim))
            return
        polysets.append((lim, [poly_exact(p) for p in snap["polygons"]]))
        if lim[0] < 1 or lim[1] < 1:
            rep.cnt("limits_below_one")
    fresh_canvas(force=True)
    _st["last_was_show"] = True
    if case.get("near"):
        pairs = gen.near_threshold_compositions(N)
        rep.cnt("near_threshold_large_N_cases")
    else:
        pairs = [(a, b) for a in range(N + 1) for b in range(N - a + 1)]
    for a, b in pairs:
        if True:
            pat = [1] * a + [-1] * b + [0] * (N - a - b)
            rng.shuffle(pat)
            region = SP(gen.spell_plain(pat)).get_phasePlotRegion()
            pt = (Fraction(a, N), Fraction(b, N))
            rep.distinct((a, b, N))
            for lim, polys in polysets:
                rep.cnt("region_points_checked")
                where = [locate(pt, poly) for poly in polys]
                own = where[region - 1] if 1 <= region <= 5 else "out"
                others_in = [i + 1 for i, w in enumerate(where) if w == "in" and i != region - 1]
                on_shared_border = own == "on" and sum(1 for w in where if w == "on") >= 2
                if on_shared_border and lim == (1, 1):
                    # a marker ON the border two drawn regions share belongs to the one the written rule (C08) names: closed band
                    # 0.25 <= FCR <= 0.35 for region 2, open |NCPR| < 0.35 for region 3
                    from .c08 import region_exact
                    rep.cnt("markers_on_a_border_shared_by_two_regions")
                    if region != region_exact(a, b, N):
                        rep.viol("marker_outside_its_region", "(n+,n-,N)=(%d,%d,%d) lies on the border shared by the drawn polygons %r and is assigned region %r; the rule the regions are drawn from gives %r" % (
                            a, b, N, [i + 1 for i, w in enumerate(where) if w == "on"], region, region_exact(a, b, N)), sig={"shared_border": True})
                        return
                if own == "out" or others_in:
                    rep.viol("marker_outside_its_region", "(n+,n-,N)=(%d,%d,%d) is assigned region %r but its point (%s,%s) is %s the drawn polygon %r and inside %r (axis limits %r)" % (
                        a, b, N, region, pt[0], pt[1], "outside" if own == "out" else own, region, others_in, lim),
                        sig={"limits_below_one": lim[0] < 1 or lim[1] < 1})
                    return
    if N % 10 == 1:
        rep.sample({"N": N, "polygons": [[(str(x), str(y)) for x, y in p] for p in polysets[0][1]]})


_partly = [0, 0]


def rand_args(rng, multi=None):
    kw = {}
    label = None
    if rng.random() < 0.6:
        if multi is None:
            label = rng.choice(["x", "my protein", "a-syn", "P1 (wt)", "GST$1", r"$\Delta$N", "tau_{441} ^ #2 & 50%", "\u03b1-synuclein \u0394NAC", "A\u03b242", "prot\u00e9ine",
                                "construct 17 of the second library, C-terminal truncation at residue 140, His-tag removed, batch 2021-03 (label longer than the axis)"])
        else:
            label = ["s%d" % i for i in range(multi)]
            if rng.random() < 0.3:
                label[0] = rng.choice(["\u03b1-syn", "A\u03b242", "prot\u00e9ine \u2116 1"])
            if multi >= 2 and rng.random() < 0.25:
                # the same name for more than one point (replicates, two constructs of one protein)
                j_ = rng.randrange(1, multi)
                label[j_] = label[rng.randrange(0, j_)]
                _partly[1] += 1
            if multi >= 2 and rng.random() < 0.3:
                # only some of the points are named
                for i_ in rng.sample(range(multi), rng.randint(1, multi - 1)):
                    label[i_] = ""
                _partly[0] += 1
    if rng.random() < 0.5:
        kw["title"] = rng.choice(["T", "My title", "Diagram", "", "\u03b1-synuclein vs. A\u03b2", "Diagramme d'\u00e9tats",
                                  "A rather long title that describes the forty-two constructs of this study in quite some detail",
                                  "two lines:\nwild type and mutants", "tab\tseparated title", "cost: 5$ per residue", r"$\kappa$ = 0.31", "100% [draft] {v2} #3 & co_1^2"])
    if rng.random() < 0.4:
        kw["legendOn"] = rng.choice([True, False])
    if rng.random() < 0.5:
        kw["xLim"] = rng.choice(LIMS)
    if rng.random() < 0.5:
        kw["yLim"] = rng.choice(LIMS)
    if rng.random() < 0.3:
        kw["fontSize"] = rng.choice([6, 10, 14])
    return label, kw


def positional_tail(kind, label, kw, last, multi):
    """The documented arguments in their documented order: label, title, legendOn, xLim, yLim, fontSize, getFig / saveFormat."""
    default_title = "Diagram of states" if kind == "phase" else "Uversky plot"
    return [label if label else ([] if multi else ""), kw.get("title", default_title), kw.get("legendOn", True), kw.get("xLim", 1),
            kw.get("yLim", 1), kw.get("fontSize", 10), last]


def check_scatter(rep, snap, kind, entry, coords, label, kw, multi):
    default_title = "Diagram of states" if kind == "phase" else "Uversky plot"
    want_title = kw.get("title", default_title)
    ctx = "%s(%r)" % (entry, kw)
    if snap.get("naxes", 0) < 1:
        rep.viol("no_axes", "%s produced a figure without axes" % ctx, sig={"entry": entry})
        return
    got = snap["offsets"]
    want = [(float(x), float(y)) for x, y in coords]
    rep.cnt("phase_markers_checked" if kind == "phase" else "uversky_markers_checked", len(want))
    if multi:
        rep.cnt("multi_marker_figures")
    if got != want:
        rep.viol("marker_coordinates", "%s drew markers at %r, requested coordinates are %r" % (ctx, got[:6], want[:6]),
                 sig={"entry": entry, "count_differs": len(got) != len(want)})
    if multi:
        want_texts = list(label) if label else [""] * len(want)
    else:
        want_texts = [label] if label else []
    rep.cnt("labels_checked")
    if rep.counters.get("label_lists_with_repeated_names", 0) < _partly[1]:
        rep.cnt("label_lists_with_repeated_names", _partly[1] - rep.counters.get("label_lists_with_repeated_names", 0))
    if rep.counters.get("label_lists_with_some_empty_entries", 0) < _partly[0]:
        rep.cnt("label_lists_with_some_empty_entries", _partly[0] - rep.counters.get("label_lists_with_some_empty_entries", 0))
    # empty annotations are not labels: compare the non-empty texts, in order
    if [t for t in snap["texts"] if t != ""] != [t for t in want_texts if t != ""]:
        rep.viol("labels", "%s drew labels %r, requested %r" % (ctx, snap["texts"], want_texts), sig={"entry": entry})
    if snap["title"] != want_title:
        rep.viol("title", "%s has title %r, requested %r" % (ctx, snap["title"], want_title), sig={"entry": entry})
    wx, wy = float(kw.get("xLim", 1)), float(kw.get("yLim", 1))
    if kw.get("xLim", 1) < 1 or kw.get("yLim", 1) < 1:
        rep.cnt("limits_below_one")
    if snap["xlim"] != (0.0, wx) or snap["ylim"] != (0.0, wy):
        rep.viol("axis_limits", "%s has limits x %r y %r, requested (0,%r) (0,%r)" % (ctx, snap["xlim"], snap["ylim"], wx, wy), sig={"entry": entry})
    npoly = 5 if kind == "phase" else 2
    if len(snap["polygons"]) != npoly:
        rep.viol("region_polygons", "%s drew %d region polygons, expected %d" % (ctx, len(snap["polygons"]), npoly), sig={"entry": entry})


def run_entry(rep, S, entry, call, save_path):
    """Call an entry point on a clean canvas; returns the snapshot (or None after reporting)."""
    plt = _st["plt"]
    fresh_canvas()
    if not _st.get("last_was_show", True):
        rep.cnt("figures_after_unclosed_save")
    _st["last_was_show"] = save_path is None
    try:
        ret = call()
    except Exception as e:
        _st["last_was_show"] = True
        rep.viol("plot_raised", "%s raised %s: %s" % (entry, type(e).__name__, e), sig={"entry": entry, "exception": type(e).__name__})
        return None
    rep.cnt("figures")
    if save_path is None:
        rep.cnt("getfig_returns")
        if ret is None or not (hasattr(ret, "gcf") or hasattr(ret, "axes")):
            rep.viol("getfig_return", "%s with getFig=True returned %r" % (entry, ret), sig={"entry": entry})
            return None
        snap = snapshot(ret.gcf() if hasattr(ret, "gcf") else ret)      # pyplot handle or a Figure
        plt.close("all")
        return snap
    if not _st["saved"]:
        rep.viol("not_saved", "%s did not save any figure" % entry, sig={"entry": entry})
        return None
    rep.cnt("saved_files")
    if not (os.path.exists(save_path) and os.path.getsize(save_path) > 0):
        rep.viol("file_missing", "%s wrote no (or an empty) file %s" % (entry, save_path), sig={"entry": entry})
    else:
        os.remove(save_path)
    return _st["saved"][-1]["snap"]


def judge_figure(case, rep, S):
    SP, plots = S["SP"], S["plots"]
    np = S["np"]
    rng = gen.sub_rng(case["o"], ID)
    i = case["i"]
    family = ["obj_phase", "obj_uversky", "mod_single", "mod_multi", "mod_multi2", "linear", "complexity", "composition"][i % 8]
    fmt = "pdf" if rng.random() < 0.7 else "png"
    path = os.path.join(_st["tmp"], ["fig_%d.%s", "my figure %d.%s", "fig\u00e9_%d.%s"][case["o"] % 3] % (case["o"] % 5, fmt))
    save = rng.random() < 0.5
    seq = gen.rand_seq(rng, rng.choice(["idp", "polyampholyte", "polyelectrolyte", "uniform", "neutral_rich"]), lo=5, hi=60)
    if rng.random() < 0.15:
        # corners of both diagrams: homopolymers (fraction 1 of one charge, hydropathy at either end of the scale)
        seq = rng.choice("IIRKEDGWV") * rng.randint(5, 45)
        rep.cnt("homopolymer_figures")
    rep.distinct((family, save, case["o"]))

    if family in ("obj_phase", "obj_uversky"):
        if family == "obj_uversky" and rng.random() < 0.5:
            seq = gen.rand_seq(rng, "idp", lo=10, hi=60).replace("K", "E").replace("R", "D")     # net negative
        o = SP(seq)
        f = SP(seq)
        label, kw = rand_args(rng)
        if label:
            kw["label"] = label
        if family == "obj_phase":
            coords = [(f.get_fraction_positive(), f.get_fraction_negative())]
            show, savef, kind = o.show_phaseDiagramPlot, o.save_phaseDiagramPlot, "phase"
        else:
            coords = [(f.get_mean_net_charge(), f.get_uversky_hydropathy())]
            show, savef, kind = o.show_uverskyPlot, o.save_uverskyPlot, "uversky"
            if save and f.get_NCPR() < 0:
                rep.cnt("net_negative_uversky_saves")
        if label and rng.random() < 0.25:
            # an axis limit a hair above the marker's coordinate: the limit is what was asked for, label or not
            ax_ = rng.choice(["xLim", "yLim"])
            c_ = coords[0][0] if ax_ == "xLim" else coords[0][1]
            if c_ > 0.02:
                kw[ax_] = round(c_ + rng.choice([0.005, 0.001, 0.009]), 6)
                rep.cnt("limits_a_hair_above_the_marker")
        positional = rng.random() < 0.25
        if positional:
            rep.cnt("all_arguments_given_positionally")
            kwp = {k_: v for k_, v in kw.items() if k_ != "label"}
            if save:
                snap = run_entry(rep, S, savef.__name__, lambda: savef(path, *positional_tail(kind, label, kwp, fmt, False)), path)
            else:
                snap = run_entry(rep, S, show.__name__, lambda: show(*positional_tail(kind, label, kwp, True, False)), None)
        elif save:
            snap = run_entry(rep, S, savef.__name__, lambda: savef(path, saveFormat=fmt, **kw), path)
        else:
            snap = run_entry(rep, S, show.__name__, lambda: show(getFig=True, **kw), None)
        if snap and label and rng.random() < 0.5:
            # the same object is plotted again without a label: nothing of the earlier call may show
            snap2 = run_entry(rep, S, show.__name__, lambda: show(getFig=True), None)
            rep.cnt("unlabelled_plot_after_a_labelled_one_on_the_same_object")
            if snap2:
                check_scatter(rep, snap2, kind, show.__name__ + " (second call, no label)", coords, None, {}, False)
        if snap:
            check_scatter(rep, snap, kind, (savef if save else show).__name__, coords, label, kw, False)
            if kind == "phase" and len(snap.get("polygons", [])) == 5:
                # the marker lies in the polygon of the region the sequence is assigned
                a, b, N = f.get_countPos(), f.get_countNeg(), len(seq)
                region = f.get_phasePlotRegion()
                polys = [poly_exact(p) for p in snap["polygons"]]
                where = [locate((Fraction(a, N), Fraction(b, N)), p) for p in polys]
                rep.cnt("region_points_checked")
                if where[region - 1] == "out" or any(w == "in" for k, w in enumerate(where) if k != region - 1):
                    rep.viol("marker_outside_its_region", "%s: region %d but the marker is %r relative to the five drawn polygons (limits %r/%r)" % (
                        seq, region, where, kw.get("xLim", 1), kw.get("yLim", 1)), sig={"limits_below_one": kw.get("xLim", 1) < 1 or kw.get("yLim", 1) < 1})
        return

    if family in ("mod_single", "mod_multi", "mod_multi2"):
        kind = rng.choice(["phase", "uversky"])
        n = 1 if family == "mod_single" else rng.randint(1, 5)
        label, kw = rand_args(rng, None if family == "mod_single" else n)
        objs = [SP(gen.rand_seq(rng, lo=5, hi=40)) for _ in range(n)]
        if family == "mod_multi2" and n >= 2 and rng.random() < 0.3:
            objs[-1] = SP(gen.permute(rng, objs[0].get_sequence()))       # same composition: identical coordinates
            rep.cnt("coincident_markers")
        if family == "mod_multi2":
            if kind == "phase":
                coords = [(q.get_fraction_positive(), q.get_fraction_negative()) for q in objs]
            else:
                coords = [(q.get_mean_net_charge(), q.get_uversky_hydropathy()) for q in objs]
        else:
            coords = []
            for _ in range(n):
                x = round(rng.random(), 3)
                y = round(rng.random() * (1 - x), 3) if kind == "phase" else round(rng.random(), 3)
                coords.append((x, y))
            if n >= 2 and rng.random() < 0.3:
                coords[-1] = coords[0]              # two sequences at the very same point (e.g. a shuffle of the first)
                rep.cnt("coincident_markers")
            if rng.random() < 0.4:
                coords[0] = (0.02, 0.95) if kind == "phase" else (round(rng.random(), 3), 0.95)     # near the top of the frame
                rep.cnt("markers_near_top")
        if kind == "phase":
            xs, ys = [c[0] for c in coords], [c[1] for c in coords]           # fp, fn
        else:
            xs, ys = [c[1] for c in coords], [c[0] for c in coords]           # hydropathy, mean net charge
        lab_kw = {}
        if label:
            lab_kw = {"label": label} if family == "mod_single" else {"label_list": label}
        base = {"mod_single": "single", "mod_multi": "multiple", "mod_multi2": "multiple"}[family]
        suffix = "2" if family == "mod_multi2" else ""
        pname = "%s_%s_%s%s" % ("save" if save else "show", base, "phasePlot" if kind == "phase" else "uverskyPlot", suffix)
        fn = getattr(plots, pname)
        if pname == "show_multiple_phasePlot" and label:
            lab_kw = {"label": label}
        form = rng.random()
        if family == "mod_single":
            pos = [xs[0], ys[0]]
            if form < 0.3:
                pos = [np.float64(xs[0]), np.float64(ys[0])]
                rep.cnt("numpy_coordinate_arguments")
        elif family == "mod_multi":
            pos = [xs, ys]
            if form < 0.2:
                pos = [tuple(xs), tuple(ys)]
                rep.cnt("tuple_coordinate_arguments")
            elif form < 0.55:
                pos = [np.array(xs), np.array(ys)]
                rep.cnt("numpy_coordinate_arguments")
        else:
            pos = [objs] if form < 0.7 else [tuple(objs)]
        if rng.random() < 0.25:
            rep.cnt("all_arguments_given_positionally")
            multi_ = family != "mod_single"
            if save:
                snap = run_entry(rep, S, pname, lambda: fn(*pos, path, *positional_tail(kind, label, kw, fmt, multi_)), path)
            else:
                snap = run_entry(rep, S, pname, lambda: fn(*pos, *positional_tail(kind, label, kw, True, multi_)), None)
        elif save:
            snap = run_entry(rep, S, pname, lambda: fn(*pos, path, saveFormat=fmt, **lab_kw, **kw), path)
        else:
            snap = run_entry(rep, S, pname, lambda: fn(*pos, getFig=True, **lab_kw, **kw), None)
        if snap:
            check_scatter(rep, snap, kind, pname, coords, label, kw, family != "mod_single")
        return

    if family == "linear":
        which = rng.choice(["NCPR", "FCR", "Sigma", "Hydropathy"])
        if rng.random() < 0.35:
            seq = gen.rand_seq(rng, "idp", lo=200, hi=320)
            if rng.random() < 0.5:
                which = "NCPR"
            if rng.random() < 0.5:
                seq = (seq * 2)[:rng.choice([219, 220, 221, 250])]
            rep.cnt("long_linear_plots")
        if rng.random() < 0.15:
            seq = gen.rand_seq(rng, "polyampholyte", lo=1, hi=3)[:rng.randint(1, 3)]      # one to three residues
            rep.cnt("tiny_linear_plots")
        o = SP(seq)
        sty_ = [i_ + 1 for i_, c_ in enumerate(seq) if c_ in "STY"]
        if sty_ and rng.random() < 0.3:
            # phosphosite annotation feeds the phospho-queries only: the profile plots show the sequence as it is
            o.set_phosphosites(rng.sample(sty_, min(len(sty_), rng.randint(1, 4))))
            rep.cnt("linear_plots_of_objects_with_phosphosites")
        w = rng.choice([x for x in (1, 2, 5, 6, 10) if x <= len(seq)])        # only windows the sequence can hold
        getter = {"NCPR": "get_linear_NCPR", "FCR": "get_linear_FCR", "Sigma": "get_linear_sigma", "Hydropathy": "get_linear_hydropathy"}[which]
        prof = np.asarray(getattr(SP(seq), getter)(w), dtype=float)
        if save:
            snap = run_entry(rep, S, "save_linear" + which, lambda: getattr(o, "save_linear" + which)(path, w, fmt), path)
        else:
            snap = run_entry(rep, S, "show_linear" + which, lambda: getattr(o, "show_linear" + which)(w, getFig=True), None)
        if snap:
            rep.cnt("linear_bar_figures")
            check_bars(rep, snap, "linear" + which, seq, prof)
        return

    if family == "complexity":
        o = SP(seq)
        t = rng.choice(["WF", "LC", "LZW"])
        w = rng.randint(1, min(len(seq), 12))
        st = rng.choice([1, 1, 2, 3])
        size = rng.choice([2, 4, 8, 20])
        ws = rng.choice([3, 3, 1, 2, 4])
        if ws != 3:
            rep.cnt("complexity_plots_with_another_word_size")
        prof = np.asarray(SP(seq).get_linear_complexity(t, size, {}, w, st, ws), dtype=float)
        if save:
            snap = run_entry(rep, S, "save_linearComplexity", lambda: o.save_linearComplexity(path, t, size, {}, w, st, ws, fmt), path)
        else:
            snap = run_entry(rep, S, "show_linearComplexity", lambda: o.show_linearComplexity(t, size, {}, w, st, ws, getFig=True), None)
        if snap:
            rep.cnt("complexity_bar_figures")
            check_bars(rep, snap, "linearComplexity", seq, prof)
        return

    # composition (spline) plot: only required not to raise and to write the file
    o = SP(gen.rand_seq(rng, "uniform", lo=30, hi=80))
    run_entry(rep, S, "save_linearComposition", lambda: o.save_linearComposition(path, rng.choice([3, 5]), fmt), path)


def check_bars(rep, snap, entry, seq, prof):
    bars = snap.get("bars", [])
    want = list(zip([float(x) for x in prof[0]], [float(v) for v in prof[1]]))
    if len(bars) != len(want):
        rep.viol("bar_count", "%s on a %d-residue sequence drew %d bars for a profile of %d entries" % (entry, len(seq), len(bars), len(want)),
                 sig={"entry": entry, "long": len(seq) >= 220})
        return
    for (bx, bh), (px, pv) in zip(bars, want):
        if not (M.close(bx, px) and M.close(bh, pv)):
            rep.viol("bar_values", "%s: bar at %r with height %r, profile has position %r value %r" % (entry, bx, bh, px, pv), sig={"entry": entry})
            return
