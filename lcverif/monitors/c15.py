"""C15 - read-only queries are history-independent and never change the object.

Events: random histories (words with repetition over ~50 read-only operations
with arguments, interleaved over 1-4 live objects, salted with perturbers: calls
that raise, get_shuffled_sequence).  Oracle: every recorded result must be
identical (bitwise floats, array equality, exception type) to the pristine-fork
reference for (sequence, preset phosphosites, operation, arguments) - a process
that imported the package and made no other call - and the stored sequence and
phosphosite list of every live object must be unchanged by every call."""
import os

from .. import gen
from .. import refmodel as M
from ..zygote import Zygote

ID = "C15"
LEVEL = "exploration"
TECHNIQUE = ("runtime monitoring: recorded call histories checked against pristine-fork reference executions "
             "(fresh process image per reference) + state snapshots around every call")
RULE = ("random histories of 5-60 read-only calls (with arguments, repetition, perturbing calls that raise, shuffles) "
        "interleaved over 1-4 live objects built from random sequences (some with phosphosites preset); every result "
        "compared with the pristine-fork reference; distinct = distinct (previous operation -> operation) pair on the "
        "same object together with the operation's arguments; non-trivial = call preceded by at least one other call on "
        "the same object")
RULE += ("; added after the mutation rounds: targeted two- and three-call sequences (kappa / delta-max / permutant with bool and non-bool flags, pH 0 then region, Omega / Omega string, user alphabets, phospho queries); live objects replaced by their shuffled children; plotting and write_compfile as perturbers; sequences whose raw ratio lies in (1,1.1); the first cases of every shard are judged again at its end")
RULE += ("; round 6: several threads asking read-only queries, each of objects of its own; repeated isoelectric-point calls on chains where almost only arginine titrates")
RULE += ("; round 7: overlapping groups in swapped order; sliding-window getters with one window in different orders")
RULE += ("; round 8: two or three objects built from the same string with different phosphosites, asked the same questions in turn; groupings with a moved border")
RULE += ("; round 9: a fresh 20-residue chain of distinct residues is shuffled 12 times after histories with phosphosites: every position must move at least once")
RULE += ("; round 10: user alphabet together with a predefined size followed by plain calls with that size; an object with nine phosphosites asked for the full distribution")
RULE += ("; round 11: objects that carried other phosphosites (as many), were asked the phospho-queries and were cleared before their preset sites were set")
EXHAUSTIVE = {"quick": False, "thorough": False}
ASSUMPTIONS = [
    "the reference is a fork of a process that has imported localcider and made no call (same interpreter, hash seed)",
    "results are compared bitwise after canonicalisation (numpy arrays -> nested tuples, dicts -> sorted items)",
    "default-argument objects and module tables may change only unobservably: they are judged through results only",
    "random-valued calls (get_shuffled_sequence) are perturbers: their values are not compared",
]
REQUIRED = {"all": ["judged_calls", "references_computed", "pair:get_kappa->get_deltaMax(True)",
                    "pair:get_deltaMax->get_deltaMax(True)", "after_perturber_raise", "multi_object_histories",
                    "preset_phosphosites_histories", "distinct_ops_ge_40", "state_snapshots", "adopted_shuffled_children", "thread_rounds", "several_objects_of_one_string", "default_shuffle_mobility_checks", "objects_with_nine_phosphosites", "adopted_children_with_all_charged_positions_frozen", "objects_that_carried_other_sites_before"]}
NHIST = {"quick": 280, "thorough": 3000}
NSEQ = {"quick": 90, "thorough": 600}
MAX_SHARDS = 16

GROUPS = [("EDS", "SKR"), ("SKR", "EDS"), ("EDKR",), ("ED", "KR"), ("PEDKR",), ("DE", "KPR"), ("AKPG",), ("AKPG", "REFY"), ("ST", "Y"), ("ed", "kr"),
          ("RKED",), ("KR", "ED"), ("QNSTGHC",), ("FWY", "ILVM")]
PHS = [0, 0.0, 7, 7.4, 14, 14.0, 3.3, 10.5]
UA1 = {a: "LKE"[i % 3] for i, a in enumerate(M.AA)}
UA2 = {a: "ADG"[(i * 7) % 3] for i, a in enumerate(M.AA)}
UA3 = {a: a for a in M.AA}


def canon(x):
    try:
        import numpy as np
    except Exception:
        np = None
    if np is not None and isinstance(x, np.ndarray):
        return ("nd", x.shape, tuple(canon(v) for v in x.tolist()))
    if np is not None and isinstance(x, np.generic):
        return canon(x.item())
    if isinstance(x, float):
        return ("f", x.hex() if x == x and abs(x) != float("inf") else repr(x))
    if isinstance(x, dict):
        return ("d", tuple(sorted((repr(k), canon(v)) for k, v in x.items())))
    if isinstance(x, (list, tuple)):
        return (type(x).__name__[0], tuple(canon(v) for v in x))
    if isinstance(x, (set, frozenset)):
        return ("s", tuple(sorted(repr(v) for v in x)))
    if isinstance(x, (str, int, bool)) or x is None:
        return x
    return ("o", type(x).__name__)


def build_ops():
    ops = {}

    def simple(name):
        ops[name] = lambda o, n=name: getattr(o, n)()
    for n in ["get_sequence", "get_length", "get_mean_hydropathy", "get_uversky_hydropathy", "get_WW_hydropathy",
              "get_fraction_disorder_promoting", "get_amino_acid_fractions", "get_SCD", "get_kappa", "get_Omega",
              "get_Omega_sequence", "get_deltaMax", "get_delta", "get_countPos", "get_countNeg", "get_countNeut",
              "get_fraction_positive", "get_fraction_negative", "get_FCR", "get_fraction_expanding", "get_NCPR",
              "get_mean_net_charge", "get_isoelectric_point", "get_molecular_weight", "get_phasePlotRegion",
              "get_phosphosites", "get_kappa_after_phosphorylation", "get_all_phosphorylatable_sites",
              "get_full_phosphostatus_kappa_distribution", "get_phosphosequence", "get_PPII_propensity",
              "get_HTMLColorString", "get_reduced_alphabet_sequence", "get_linear_complexity",
              "get_linear_sequence_composition"]:
        simple(n)
    ops["len"] = lambda o: len(o)
    ops["str"] = lambda o: str(o)
    ops["get_deltaMax(True)"] = lambda o: o.get_deltaMax(True)
    ops["get_deltaMax(returnSeqDeltaMax=True)"] = lambda o: o.get_deltaMax(returnSeqDeltaMax=True)
    ops["get_deltaMax(1)"] = lambda o: o.get_deltaMax(1)
    ops["get_deltaMax(np.True_)"] = lambda o: o.get_deltaMax(__import__("numpy").True_)
    ops["get_deltaMax(False)"] = lambda o: o.get_deltaMax(False)
    ops["get_kappa_X"] = lambda o, *g: o.get_kappa_X(*[list(x) for x in g])
    for n in ["get_FCR", "get_NCPR", "get_mean_net_charge", "get_fraction_expanding"]:
        ops[n + "(pH)"] = lambda o, pH, n=n: getattr(o, n)(pH=pH)
    ops["get_PPII_propensity(mode)"] = lambda o, m: o.get_PPII_propensity(m)
    for n in ["get_linear_sigma", "get_linear_NCPR", "get_linear_FCR", "get_linear_hydropathy"]:
        ops[n + "(w)"] = lambda o, w, n=n: getattr(o, n)(w)
    ops["get_linear_sequence_composition(w)"] = lambda o, w: o.get_linear_sequence_composition(w)
    ops["get_linear_sequence_composition(w,grps)"] = lambda o, w, g: o.get_linear_sequence_composition(w, [list(x) for x in g])
    ops["get_reduced_alphabet_sequence(size)"] = lambda o, s: o.get_reduced_alphabet_sequence(s)
    ops["get_reduced_alphabet_sequence(user)"] = lambda o, k: o.get_reduced_alphabet_sequence(userAlphabet=[UA1, UA2, UA3][k])
    ops["get_linear_complexity(cfg)"] = lambda o, t, size, w, s, ws: o.get_linear_complexity(t, size, {}, w, s, ws)
    ops["get_linear_complexity(user)"] = lambda o, t, k, w: o.get_linear_complexity(complexityType=t, userAlphabet=[UA1, UA2][k], blobLen=w)
    ops["get_linear_complexity(user,size)"] = lambda o, t, k, size, w: o.get_linear_complexity(complexityType=t, alphabetSize=size, userAlphabet=[UA1, UA2][k], blobLen=w)
    ops["get_reduced_alphabet_sequence(user,size)"] = lambda o, k, size: o.get_reduced_alphabet_sequence(alphabetSize=size, userAlphabet=[UA1, UA2, UA3][k])
    return ops


OPS = build_ops()
# deliberate two-call sequences on one object (each call is still judged against the pristine reference)
TARGETED = [
    [("get_kappa", ()), ("get_deltaMax(True)", ())],
    [("get_deltaMax", ()), ("get_deltaMax(returnSeqDeltaMax=True)", ())],
    [("get_deltaMax", ()), ("get_deltaMax(1)", ())],
    [("get_kappa", ()), ("get_deltaMax(np.True_)", ())],
    [("get_deltaMax(False)", ()), ("get_deltaMax(1)", ()), ("get_deltaMax(np.True_)", ())],
    [("get_kappa", ()), ("get_deltaMax", ()), ("get_deltaMax(True)", ())],
    [("get_deltaMax(True)", ()), ("get_kappa", ()), ("get_deltaMax", ())],
    [("get_FCR(pH)", (0,)), ("get_phasePlotRegion", ()), ("get_FCR", ())],
    [("get_NCPR(pH)", (0.0,)), ("get_NCPR", ()), ("get_mean_net_charge", ())],
    [("get_Omega", ()), ("get_Omega_sequence", ()), ("get_Omega", ())],
    [("get_Omega_sequence", ()), ("get_Omega", ())],
    [("get_kappa_X", ("EDKR",)), ("get_kappa_X", ("ED", "KR"))],
    [("get_kappa_X", ("PEDKR",)), ("get_kappa_X", ("DE", "KPR"))],
    [("get_PPII_propensity(mode)", ("kallenbach",)), ("get_PPII_propensity", ()), ("get_PPII_propensity(mode)", ("creamer",))],
    [("get_reduced_alphabet_sequence(user)", (0,)), ("get_reduced_alphabet_sequence(user)", (1,)), ("get_linear_complexity(user)", ("WF", 1, 1))],
    [("get_full_phosphostatus_kappa_distribution", ()), ("get_phosphosites", ()), ("get_phosphosequence", ())],
    [("get_kappa", ()), ("get_kappa_after_phosphorylation", ())],
    [("get_kappa_after_phosphorylation", ()), ("get_SCD", ()), ("get_kappa", ())],
    [("get_isoelectric_point", ()), ("get_NCPR(pH)", (7,)), ("get_FCR(pH)", (7.4,))],
    [("get_linear_sequence_composition", ()), ("get_linear_sequence_composition", ()), ("get_linear_sequence_composition(w)", (1,))],
    [("get_amino_acid_fractions", ()), ("get_amino_acid_fractions", ())],
    [("get_isoelectric_point", ()), ("get_isoelectric_point", ()), ("get_isoelectric_point", ())],
    [("get_SCD", ()), ("get_SCD", ())],
    [("get_linear_complexity(user,size)", ("WF", 1, 4, 3)), ("get_reduced_alphabet_sequence(size)", (4,)), ("get_linear_complexity(cfg)", ("WF", 4, 3, 1, 2))],
    [("get_reduced_alphabet_sequence(user,size)", (0, 8)), ("get_reduced_alphabet_sequence(size)", (8,)), ("get_linear_complexity(cfg)", ("LC", 8, 3, 1, 2))],
    [("get_reduced_alphabet_sequence(user,size)", (1, 2)), ("get_linear_complexity(cfg)", ("WF", 2, 2, 1, 3)), ("get_reduced_alphabet_sequence(size)", (2,))],
    [("get_kappa_X", ("EDS", "SKR")), ("get_kappa_X", ("SKR", "EDS")), ("get_kappa_X", ("EDS", "SKR"))],
    [("get_kappa_X", ("KR", "ED")), ("get_kappa_X", ("ED", "KR")), ("get_kappa", ())],
    [("get_kappa_X", ("ED", "KR")), ("get_kappa_X", ("DEK", "R")), ("get_kappa_X", ("DEKR",)), ("get_kappa_X", ("D", "EKR"))],
    [("get_kappa_X", ("ST", "Y")), ("get_kappa_X", ("S", "TY")), ("get_kappa_X", ("STY",))],
    [("get_linear_sigma(w)", (5,)), ("get_linear_FCR(w)", (5,)), ("get_linear_NCPR(w)", (5,))],
    [("get_linear_hydropathy(w)", (3,)), ("get_linear_sigma(w)", (3,)), ("get_linear_FCR(w)", (3,)), ("get_linear_sigma(w)", (3,))],
    [("get_isoelectric_point", ()), ("get_FCR(pH)", (14,)), ("get_isoelectric_point", ())],
]
PERTURBERS = ["bad_window", "bad_group", "bad_pH", "bad_type", "bad_alphabet", "shuffle", "bad_ppii", "plot", "compfile",
              "bad_window", "bad_group", "bad_pH", "shuffle"]


def perturb(obj, kind, rng):
    N = len(obj)
    if kind == "shuffle":
        obj.get_shuffled_sequence()
        return "returned"
    if kind == "plot":
        # plotting entry points read the object; they must not disturb it either
        import matplotlib.pyplot as plt
        try:
            which = rng.choice(["phase", "uversky", "linear"])
            if which == "phase":
                obj.show_phaseDiagramPlot(getFig=True)
            elif which == "uversky":
                obj.show_uverskyPlot(getFig=True)
            else:
                getattr(obj, rng.choice(["show_linearNCPR", "show_linearFCR", "show_linearSigma", "show_linearHydropathy"]))(min(N, 5), getFig=True)
        finally:
            plt.close("all")
        return "returned"
    if kind == "compfile":
        import tempfile
        d = tempfile.mkdtemp(prefix="lcverif_c15_")
        try:
            obj.write_compfile(os.path.join(d, "comp.txt"))
        finally:
            import shutil
            shutil.rmtree(d, ignore_errors=True)
        return "returned"
    try:
        if kind == "bad_window":
            getattr(obj, rng.choice(["get_linear_NCPR", "get_linear_FCR", "get_linear_sigma", "get_linear_hydropathy",
                                     "get_linear_sequence_composition"]))(N + rng.randint(1, 3))
        elif kind == "bad_group":
            obj.get_kappa_X(["E", "B"]) if rng.random() < 0.5 else obj.get_linear_sequence_composition(min(N, 2), [["K", "1"]])
        elif kind == "bad_pH":
            obj.get_FCR(pH=rng.choice([-1, 15, 99.0]))
        elif kind == "bad_type":
            obj.get_linear_complexity("NOPE", blobLen=min(N, 2))
        elif kind == "bad_alphabet":
            obj.get_reduced_alphabet_sequence(rng.choice([7, 0, 19]))
        elif kind == "bad_ppii":
            obj.get_PPII_propensity("nonsense")
    except Exception:
        return "raised"
    return "returned"


def random_call(rng, N):
    r = rng.random()
    if r < 0.45:
        name = rng.choice([n for n in OPS if "(" not in n and n != "get_kappa_X"])
        return (name, ())
    name = rng.choice([n for n in OPS if "(" in n] + ["get_kappa_X", "get_kappa_X"])
    if name.startswith("get_deltaMax("):
        return (name, ())
    if name == "get_kappa_X":
        return (name, rng.choice(GROUPS))
    if name.endswith("(pH)"):
        return (name, (rng.choice(PHS),))
    if name == "get_PPII_propensity(mode)":
        return (name, (rng.choice(["hilser", "creamer", "kallenbach", "HILSER", "Creamer"]),))
    if name.endswith("(w)") and "composition" not in name:
        return (name, (rng.choice([1, 2, 5, 6, N, max(1, N - 1)]) if N > 1 else 1,))
    if name == "get_linear_sequence_composition(w)":
        return (name, (min(N, rng.choice([1, 2, 5])),))
    if name == "get_linear_sequence_composition(w,grps)":
        return (name, (min(N, rng.choice([1, 2, 5])), rng.choice([("KR", "DE"), ("P",), ("ST", "Y", "G")])))
    if name == "get_reduced_alphabet_sequence(size)":
        return (name, (rng.choice([2, 3, 4, 5, 6, 8, 10, 11, 12, 15, 18, 20]),))
    if name == "get_reduced_alphabet_sequence(user)":
        return (name, (rng.randrange(3),))
    if name == "get_linear_complexity(cfg)":
        return (name, (rng.choice(["WF", "LC", "LZW", "wf"]), rng.choice([2, 4, 8, 20]), rng.randint(1, N), rng.choice([1, 2, 3]), rng.choice([1, 2, 3])))
    if name == "get_linear_complexity(user)":
        return (name, (rng.choice(["WF", "LC", "LZW"]), rng.randrange(2), rng.randint(1, N)))
    return (name, ())


def evaluate(req):
    """Runs in a pristine grandchild: construct, optional preset, one call."""
    from .. import sut
    S = sut.load()
    seq, presites, name, args = req
    obj = S["SP"](seq)
    if presites:
        obj.set_phosphosites(list(presites))
    return canon(OPS[name](obj, *args))


_z = {}


def setup(S, tier, seed):
    # fork the zygote before this process makes any library call
    _z["zygote"] = Zygote(evaluate)
    _z["memo"] = {}
    _z["ops_seen"] = set()


def teardown(S):
    if _z.get("zygote"):
        _z["zygote"].close()


def cases(tier, seed):
    if tier == "thorough":
        yield {"k": "repo_suite_under_contracts"}
    rng = gen.sub_rng(seed, ID)
    seqs = []
    for i in range(NSEQ[tier]):
        cls = rng.choice(["idp", "polyampholyte", "polyelectrolyte", "sty_rich", "uniform", "short", "neutral_rich", "titratable"])
        seqs.append(gen.rand_seq(rng, cls, hi=70 if i % 6 else 110))
    seqs[:6] = ["KKKKRRKKKKRRKKKK", "KEKE", "GGSGG", "EKEKGGKKEE", "SGGTYKKEESTY", "EEEEDDDD"]
    # sequences whose raw delta/delta-max ratio lies in (1, 1.1) (the clamp branch of kappa) or far above 1
    seqs[6:18] = ["EKKGGKE", "EKGKKGE", "EGGGGGE", "EEGGGGGE", "KKGGGGGK", "KGEEEEGGK", "EGKKKKGGE", "DRKSTRE",
                  "EEEEEEEEEEEEEEEEEEKG", "KEEEEK", "GKKKKG", "EGKKKEE"]
    # chains in which almost nothing but arginine (or nothing at all) titrates: the isoelectric-point search leaves 0..14
    seqs[18:24] = ["RRRRRRRRRRRRGG", "R" * 20 + "HK", "RRRRRRRRRRGSGSR", "GSGSGSGSQQ", "R" * 45 + "D", "KRRRRRRRRRRRRRRRRRRR"]
    yield {"sweep": 260 if tier == "quick" else 900, "seqs": [], "o": 3}
    # an object with nine phosphosites: the read-only distribution query (512 states) must leave the list as it is
    yield {"seqs": ["STSYTKSYSTE"], "o": 77, "all_sites": True}
    for j in range(2 if tier == "quick" else 8):
        yield {"threads": 1, "seqs": [rng.choice(seqs) for _ in range(6)] + ["SGGTYKKEESTYPPLLMM", "IIIIIIIIIIKE"], "o": j}
    for i in range(NHIST[tier]):
        k = rng.choice([1, 1, 2, 3, 4])
        pool = seqs[:24] if i % 5 == 0 else seqs
        chosen = [rng.choice(pool) for _ in range(k)]
        if i % 7 == 3:
            # several objects built from the SAME string (they differ only in what was done to them, e.g. their phosphosites)
            s_ = rng.choice([x for x in seqs if sum(c in "STY" for c in x) >= 2] or seqs)
            chosen = [s_] * rng.choice([2, 3])
        yield {"seqs": chosen, "o": rng.randrange(1 << 30)}


def reference(seq, presites, name, args):
    key = (seq, tuple(presites), name, repr(args))
    memo = _z["memo"]
    if key not in memo:
        memo[key] = _z["zygote"].ask((seq, tuple(presites), name, args))
        memo["__n"] = memo.get("__n", 0) + 1
    return memo[key]


def snapshot(objs):
    return [(o.SeqObj.seq, list(o.SeqObj.phosphosites)) for o in objs]


def judge_repo_suite(rep):
    """Auxiliary workload: the repository's own tests with the contracts on."""
    import json
    import re
    import subprocess
    import sys
    import tempfile
    from .. import sut
    tmp = tempfile.mkdtemp(prefix="lcverif_suite_")
    counts = os.path.join(tmp, "counts.json")
    env = dict(os.environ, LCVERIF_CONTRACT_COUNTS=counts, PYTHONDONTWRITEBYTECODE="1", MPLBACKEND="Agg")
    env.pop("LOCALCIDER_VERIF", None)
    try:
        p = subprocess.run([sys.executable, "-W", "ignore", "-m", "pytest", "-q", "-rf", "-p", "no:cacheprovider", "-p",
                            "lcverif.pytest_contracts", "--timeout=900", os.path.join(sut.REPO, "localcider", "tests")],
                           cwd=tmp, env=env, capture_output=True, text=True, timeout=3000)
    except subprocess.TimeoutExpired:
        rep.inconclusive("repository test-suite under contracts timed out")
        return
    out = p.stdout + p.stderr
    rep.cnt("repo_suite_runs")
    m = re.search(r"(\d+) passed", out)
    rep.cnt("repo_suite_tests_passed", int(m.group(1)) if m else 0)
    try:
        ev = sum(json.load(open(counts)).values())
    except Exception:
        ev = 0
    rep.cnt("repo_suite_contract_evaluations", ev)
    if ev == 0:
        rep.inconclusive("the contracts were never evaluated while the repository's test-suite ran")
    if "ContractBroken" in out:
        lines = [l for l in out.splitlines() if "ContractBroken" in l][:5]
        rep.viol("contract_in_repo_tests", "a contract fired while the repository's own test-suite ran: %s" % " | ".join(lines))
    import shutil
    shutil.rmtree(tmp, ignore_errors=True)


def judge_sweep(case, rep, S):
    """Hundreds of objects with distinct compositions queried in ONE process; then new objects of the early sequences
    must still answer like a pristine process does."""
    rng = gen.sub_rng(0, ID, "sweep")
    comps = gen.distinct_compositions(rng, case["sweep"], 8, 22)
    seqs = []
    for (p, n, z) in comps:
        pat = [1] * p + [-1] * n + [0] * z
        rng.shuffle(pat)
        s = gen.spell(rng, pat)
        seqs.append(s)
        o = S["SP"](s)
        o.get_kappa()
        o.get_amino_acid_fractions()
        rep.cnt("sweep_objects")
    for s in seqs[:60]:
        o = S["SP"](s)
        for name, args in (("get_deltaMax", ()), ("get_kappa", ()), ("get_amino_acid_fractions", ()), ("get_Omega", ())):
            try:
                got = ("ok", canon(OPS[name](o, *args)))
            except Exception as e:
                got = ("raised", type(e).__name__)
            want = reference(s, [], name, args)
            rep.cnt("judged_calls")
            if got != want:
                rep.viol("history_dependent", "%s on a new object of %s returned %s after %d other objects were queried in this process, a pristine process returns %s" % (
                    name, s, short(got), len(seqs), short(want)), sig={"op": name, "prev": "sweep"})
                return


def mobility(rep, S, why):
    from .. import salt as SALT
    SALT.default_shuffles_move_everything(S, rep, "history_dependent", " (%s)" % why)


def judge_threads(case, rep, S):
    """Read-only queries asked by several threads, each on objects of its own: the answers are those of a quiet process."""
    from .. import threads as T
    table = {}
    for n in ["get_mean_hydropathy", "get_uversky_hydropathy", "get_WW_hydropathy", "get_fraction_disorder_promoting",
              "get_amino_acid_fractions", "get_SCD", "get_kappa", "get_Omega", "get_Omega_sequence", "get_deltaMax", "get_delta",
              "get_FCR", "get_NCPR", "get_isoelectric_point", "get_molecular_weight", "get_phasePlotRegion", "get_PPII_propensity",
              "get_HTMLColorString", "get_reduced_alphabet_sequence", "get_deltaMax(True)"]:
        table[n] = OPS[n]
    table["get_kappa_X(ST,Y)"] = lambda o: OPS["get_kappa_X"](o, "ED", "KR")
    table["get_FCR(pH=3.3)"] = lambda o: OPS["get_FCR(pH)"](o, 3.3)
    table["get_PPII(creamer)"] = lambda o: OPS["get_PPII_propensity(mode)"](o, "creamer")
    table["get_linear_NCPR(3)"] = lambda o: OPS["get_linear_NCPR(w)"](o, 3)
    table["get_linear_hydropathy(2)"] = lambda o: OPS["get_linear_hydropathy(w)"](o, 2)
    table["get_linear_sequence_composition(2)"] = lambda o: OPS["get_linear_sequence_composition(w)"](o, 2)
    table["reduced(8)"] = lambda o: OPS["get_reduced_alphabet_sequence(size)"](o, 8)
    table["reduced(user)"] = lambda o: OPS["get_reduced_alphabet_sequence(user)"](o, 0)
    table["complexity(WF,4,3)"] = lambda o: OPS["get_linear_complexity(cfg)"](o, "WF", 4, 3, 1, 2)
    seqs = [s for s in dict.fromkeys(case["seqs"]) if len(s) >= 4]
    T.own_object_agreement(S["SP"], seqs[:5], table, rep, "concurrent_callers", nthreads=4, rounds=2, seed=case["o"], counter="thread_rounds")


def judge(case, rep, S):
    if case.get("sweep"):
        return judge_sweep(case, rep, S)
    if case.get("threads"):
        return judge_threads(case, rep, S)
    if case.get("k") == "repo_suite_under_contracts":
        judge_repo_suite(rep)
        return
    SP = S["SP"]
    rng = gen.sub_rng(case["o"], ID)
    seqs = case["seqs"]
    objs, presets = [], []
    for s in seqs:
        o = SP(s)
        sty = [i + 1 for i, c in enumerate(s) if c in "STY"]
        pre = []
        if case.get("all_sites"):
            pre = list(sty)
            o.set_phosphosites(list(pre))
            rep.cnt("objects_with_nine_phosphosites")
        elif sty and rng.random() < 0.4:
            pre = rng.sample(sty, min(len(sty), rng.randint(1, 4)))
            r3 = gen.sub_rng(case["o"] ^ 0x1515 ^ len(objs), ID)         # own generator: the ordinary stream stays what it was
            if len(sty) > len(pre) and r3.random() < 0.5:
                # the object carried OTHER sites (as many) before, was asked the phospho-queries, and was cleared: the reference for
                # (sequence, sites) knows nothing of that
                other = r3.sample(sty, len(pre))
                if sorted(other) == sorted(pre):
                    other = [x for x in sty if x not in pre][:len(pre)] or other
                try:
                    o.set_phosphosites(list(other))
                    o.get_kappa_after_phosphorylation()
                    o.get_phosphosequence()
                    if len(other) <= 3:
                        o.get_full_phosphostatus_kappa_distribution()
                    o.clear_phosphosites()
                    rep.cnt("objects_that_carried_other_sites_before")
                except Exception:
                    o = SP(s)
            o.set_phosphosites(list(pre))
        objs.append(o)
        presets.append(pre)
    if len(objs) > 1:
        rep.cnt("multi_object_histories")
    if len(objs) > 1 and len(set(seqs)) == 1:
        rep.cnt("several_objects_of_one_string")
        if len(set(map(tuple, presets))) == 1:
            # make sure they differ in their phosphosites
            sty = [i + 1 for i, c in enumerate(seqs[0]) if c in "STY"]
            if len(sty) >= 2:
                objs[0].clear_phosphosites()
                objs[0].set_phosphosites([sty[0]])
                presets[0] = [sty[0]]
                objs[1].clear_phosphosites()
                objs[1].set_phosphosites([sty[-1]])
                presets[1] = [sty[-1]]
    if any(presets):
        rep.cnt("preset_phosphosites_histories")
    last = [None] * len(objs)
    after_raise = [False] * len(objs)
    n0 = _z["memo"].get("__n", 0)
    history = []
    pending = []                      # targeted follow-up calls: (object index, name, args)
    if case.get("all_sites"):
        pending.extend([(0, "get_full_phosphostatus_kappa_distribution", ()), (0, "get_phosphosites", ()), (0, "get_phosphosequence", ()),
                        (0, "get_kappa_after_phosphorylation", ()), (0, "get_full_phosphostatus_kappa_distribution", ())])
    if len(objs) > 1 and len(set(seqs)) == 1:
        # the same questions to each of the objects that share a string, one after the other
        for nm_ in rng.sample(["get_kappa_after_phosphorylation", "get_phosphosequence", "get_Omega", "get_kappa", "get_full_phosphostatus_kappa_distribution",
                               "get_phosphosites", "get_deltaMax(True)", "get_isoelectric_point"], 4):
            for k_ in range(len(objs)):
                pending.append((k_, nm_, ()))
    for step in range(rng.randint(5, 60)):
        k = rng.randrange(len(objs))
        if pending:
            k = pending[0][0]
        obj, seq = objs[k], seqs[k]
        N = len(seq)
        before = snapshot(objs)
        if not pending and rng.random() < 0.15:
            pending.extend((k,) + c for c in rng.choice(TARGETED))
        if not pending and rng.random() < 0.06:
            # the live object is replaced by its shuffled child: the child is an object like any other and must
            # answer like a freshly constructed object of ITS sequence, whatever its parent was asked before
            if rng.random() < 0.5:
                obj.get_deltaMax(True)              # the parent has recorded its delta-max arrangement before it is shuffled
            if rng.random() < 0.5:
                # every charged position frozen: the copy has the parent's charge pattern and other neutral residues
                child = obj.get_shuffled_sequence([i_ for i_, c_ in enumerate(seq) if c_ in "KRDE"])
                rep.cnt("adopted_children_with_all_charged_positions_frozen")
            else:
                child = obj.get_shuffled_sequence()
            objs[k], seqs[k], presets[k] = child, child.get_sequence(), []
            last[k] = None
            history.append((k, "adopt_shuffled_child"))
            rep.cnt("adopted_shuffled_children")
            pending.extend((k,) + c for c in rng.choice(TARGETED[:6]))
            continue
        if not pending and rng.random() < 0.12:
            kind = rng.choice(PERTURBERS)
            outcome = perturb(obj, kind, rng)
            history.append((k, "perturb:" + kind))
            if outcome == "raised":
                after_raise[k] = True
            name = None
        else:
            if pending:
                _, name, args = pending.pop(0)
                rep.cnt("targeted_pair_calls")
            else:
                name, args = random_call(rng, N)
            if name == "get_SCD" and N > 80:
                name, args = "get_delta", ()
            if name == "get_full_phosphostatus_kappa_distribution" and len(presets[k]) > 3 and not case.get("all_sites"):
                name, args = "get_phosphosites", ()
            history.append((k, name, args))
            try:
                got = ("ok", canon(OPS[name](obj, *args)))
            except Exception as e:
                got = ("raised", type(e).__name__)
        after = snapshot(objs)
        rep.cnt("state_snapshots")
        if after != before:
            rep.viol("state_changed", "stored sequence / phosphosite list changed from %r to %r by call %r (history %r)" % (
                before, after, history[-1], history[-8:]), sig={"op": history[-1][1]})
            return
        if name is None:
            continue
        want = reference(seq, presets[k], name, args)
        rep.cnt("judged_calls")
        _z["ops_seen"].add(name)
        if len(_z["ops_seen"]) >= 40:
            rep.cnt("distinct_ops_ge_40")
        if last[k] is not None:
            if last[k] in ("get_kappa", "get_deltaMax") and name.startswith("get_deltaMax("):
                rep.cnt("pair:%s->get_deltaMax(True)" % last[k])
            rep.distinct((last[k], name, repr(args)))
        if after_raise[k]:
            rep.cnt("after_perturber_raise")
            after_raise[k] = False
        if want[0] in ("died", "unpicklable"):
            rep.inconclusive("reference evaluation failed for %r: %r" % ((seq, name, args), want))
            return
        if got != want:
            prior = [h for h in history[:-1] if h[0] == k][-6:]
            rep.viol("history_dependent", "%s%r on %s (preset sites %r) returned %s after history %r on the same object, but a pristine object returns %s" % (
                name, args, seq, presets[k], short(got), prior, short(want)),
                sig={"op": name, "prev": last[k]})
            return
        last[k] = name
    rep.cnt("references_computed", _z["memo"].get("__n", 0) - n0)
    if any(presets) and rep.evaluations % 3 == 0:
        # objects with phosphosites were shuffled with nothing frozen during this history (a perturber): afterwards a shuffle
        # of a new object may still move every position
        for o_ in objs:
            try:
                o_.get_shuffled_sequence()
            except Exception:
                pass
        mobility(rep, S, "after default shuffles of objects with phosphosites %r" % (presets,))
    if rep.evaluations % 30 == 1:
        rep.sample({"sequences": seqs, "presets": presets, "history_head": [list(map(str, h)) for h in history[:12]]})


def short(x):
    s = repr(x)
    return s if len(s) < 300 else s[:300] + "..."
