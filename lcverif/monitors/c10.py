"""C10 - sliding-window profiles report each window's statistic at its centre position.

Oracle: own window/centre placement model (refmodel-free, written from the
statement): shape, positions 1..N, value of window i at index i+floor((w-1)/2),
zeros on the floor((w-1)/2) leading / ceil((w-1)/2) trailing positions; the w=N
links to the whole-sequence getters; the delta link through the w=5,6 sigma
profiles; rejection of every window longer than the sequence by all five
functions; rejection of invalid group members."""
import math

from .. import gen
from .. import refmodel as M
from .. import salt as SALT

ID = "C10"
LEVEL = "exploration"
TECHNIQUE = "runtime monitoring: reference placement model + cross-getter links on observed get_linear_* results"
RULE = ("every charge pattern of length <= Lp (quick 7, thorough 8) with random spelling x every window 1..N+3; random "
        "sequences (quick N <= 40 all windows, thorough N <= 150 windows {1,2,5,6,N-1,N,N+1,N+2,N+3}+random) x the five "
        "profile functions, default and random user groups; distinct = distinct (sequence, window); non-trivial = w <= N")
RULE += ("; added after the mutation rounds: numpy-integer and default windows; 300-residue poly-K chains with windows 127..257; empty and repeated user groups; history salt; the first cases of every shard are judged again at its end")
RULE += ("; round 5: user groups of 9-20 residues")
RULE += ("; round 6: string groups that read as words")
RULE += ("; round 7: profile getters asked in shuffled order with repeats; 9-14 user groups")
RULE += ("; round 8: the default window (omitted and explicit 5) on chains shorter than 5; an explicitly empty group list; a member named again in the other case")
RULE += ("; round 9: an over-long window together with an empty group list")
RULE += ("; round 10: over-long windows given as unsigned numpy integers")
EXHAUSTIVE = {"quick": False, "thorough": False}
EXHAUSTIVE_NOTE = {"quick": "all patterns of length <= 7 x all windows 1..N+3", "thorough": "all patterns of length <= 8 x all windows 1..N+3"}
ASSUMPTIONS = [
    "statistics: NCPR=(n+ - n-)/w, FCR=(n+ + n-)/w, sigma=NCPR^2/FCR (0 for an uncharged window), hydropathy = mean "
    "Uversky-normalised Kyte-Doolittle, composition = fraction of the window in the group; 1e-9 relative agreement",
    "default composition groups as documented: ED, RK, RKED, QNSTGHC, ALMIV, FYW, P",
    "window 0 / negative / non-integer windows are outside the quantifier (1 <= w) and not driven",
]
REQUIRED = {"all": ["salted_objects", "w_eq_1", "w_eq_N", "w_gt_N_rejected", "even_windows", "odd_windows", "delta_link_checked",
                    "user_groups", "default_groups", "invalid_group_rejected", "histidine_windows", "default_window_calls", "numpy_int_windows", "windows_ge_128_sequences", "empty_user_groups", "repeated_user_groups", "more_than_1000_windows", "user_groups_larger_than_half_the_alphabet", "profile_calls_in_shuffled_order", "more_than_10_user_groups", "default_window_on_shorter_sequence_rejected", "explicit_empty_group_list_calls", "unsigned_numpy_windows_beyond_N"]}
LP = {"quick": 7, "thorough": 8}
NRANDOM = {"quick": 500, "thorough": 3000}
DEFAULT_GROUPS = ["ED", "RK", "RKED", "QNSTGHC", "ALMIV", "FYW", "P"]


def cases(tier, seed):
    for L in range(1, LP[tier] + 1):
        for pat in gen.all_patterns(L):
            yield {"k": "pat", "p": M.pat_str(pat)}
    rng = gen.sub_rng(seed, ID)
    for s in ["K" * 300, "R" * 140 + "G" * 20 + "K" * 150, "E" * 260, ("KKKKKKKKKG" * 31), ("KRKRKRE" * 45)][:3 if tier == "quick" else 5]:
        yield {"k": "long", "s": s, "o": rng.randrange(1 << 30)}
    # more than a thousand windows per profile
    yield {"k": "verylong", "s": gen.rand_seq(rng, "uniform", lo=1500, hi=1500)[:1500], "o": rng.randrange(1 << 30)}
    for i in range(NRANDOM[tier]):
        hi = 40 if tier == "quick" else (150 if i % 4 == 0 else 40)
        yield {"k": "seq", "s": gen.rand_seq(rng, hi=hi), "o": rng.randrange(1 << 30)}


def stat_ncpr(win):
    p = sum(1 for c in win if c in "KR")
    n = sum(1 for c in win if c in "DE")
    return (p - n) / len(win)


def stat_fcr(win):
    return sum(1 for c in win if c in "KRDE") / len(win)


def stat_sigma(win):
    f = stat_fcr(win)
    return 0.0 if f == 0 else stat_ncpr(win) ** 2 / f


def stat_hydro(win):
    return math.fsum((M.KD[c] + 4.5) / 9.0 for c in win) / len(win)


def model(stat, seq, w):
    N = len(seq)
    vals = [0.0] * N
    off = (w - 1) // 2
    for i in range(N - w + 1):
        vals[i + off] = stat(seq[i:i + w])
    return vals


def check_profile(rep, S, name, arr, seq, w, stat):
    np = S["np"]
    N = len(seq)
    a = np.asarray(arr, dtype=float)
    if a.shape != (2, N):
        rep.viol("shape:" + name, "%s(%d) on %s (N=%d) has shape %r" % (name, w, seq, N, a.shape), sig={"fn": name})
        return None
    if list(a[0]) != list(range(1, N + 1)):
        rep.viol("positions:" + name, "%s(%d) positions %r on %s" % (name, w, list(a[0])[:12], seq), sig={"fn": name})
    want = model(stat, seq, w)
    got = list(a[1])
    for i in range(N):
        if not M.close(got[i], want[i]):
            rep.viol("value:" + name, "%s(w=%d) on %s: entry at position %d is %r, model (window statistic at its centre, zero flanks) gives %r; "
                     "got %r want %r" % (name, w, seq, i + 1, got[i], want[i], got[:14], want[:14]),
                     sig={"fn": name, "parity": w % 2})
            break
    return got


def judge(case, rep, S):
    if case["k"] == "pat":
        pat = M.pat_from_str(case["p"])
        rng = gen.sub_rng(0, ID, case["p"])
        seq = gen.spell(rng, pat, neut=M.NEUTRALS + "HHH")
        windows = list(range(1, len(seq) + 4)) + [len(seq) + 10, 2 * len(seq) + 1, 10 * len(seq)]
    else:
        seq = case["s"]
        rng = gen.sub_rng(case["o"], ID)
        N = len(seq)
        if case["k"] == "verylong":
            rep.cnt("more_than_1000_windows")
            windows = [5, 6, N - 1000, N]
        elif case["k"] == "long":
            rep.cnt("windows_ge_128_sequences")
            windows = sorted(set([127, 128, 129, 150, 200, 255, 256, 257, N - 1, N, N + 1]))
            windows = [w for w in windows if w <= N + 1]
        elif N <= 40:
            windows = list(range(1, N + 4)) + [N + 7, 2 * N + 1, 5 * N + 3]
        else:
            windows = sorted(set([1, 2, 5, 6, N - 1, N, N + 1, N + 2, N + 3] + [rng.randint(1, N) for _ in range(6)]))
    N = len(seq)
    obj = S["SP"](seq)
    if rng.random() < 0.25:
        SALT.salt(S, obj, seq, rng, rep, cheap=N > 100)
    fns = [("get_linear_NCPR", obj.get_linear_NCPR, stat_ncpr), ("get_linear_FCR", obj.get_linear_FCR, stat_fcr),
           ("get_linear_sigma", obj.get_linear_sigma, stat_sigma), ("get_linear_hydropathy", obj.get_linear_hydropathy, stat_hydro)]
    sigma_profiles = {}
    for w in windows:
        if w <= N:
            rep.distinct((seq, w))
            rep.cnt("even_windows" if w % 2 == 0 else "odd_windows")
            if w == 1:
                rep.cnt("w_eq_1")
            if "H" in seq:
                rep.cnt("histidine_windows")
            order = list(fns)
            if rng.random() < 0.6:
                rng.shuffle(order)             # the profiles are independent questions: any order, some asked twice
                order = order + [rng.choice(order)]
                rep.cnt("profile_calls_in_shuffled_order")
            for name, fn, stat in order:
                try:
                    form = rng.random()
                    if w == 5 and form < 0.34:
                        arr = fn()                          # documented default window
                        rep.cnt("default_window_calls")
                    elif form < 0.15:
                        arr = fn(S["np"].int64(w))           # numpy integer window
                        rep.cnt("numpy_int_windows")
                    elif form < 0.55:
                        arr = fn(w)
                    else:
                        arr = fn(blobLen=w)
                except Exception as e:
                    rep.viol("raised:" + name, "%s(%d) raised %s: %s on %s (N=%d)" % (name, w, type(e).__name__, e, seq, N), sig={"fn": name})
                    continue
                got = check_profile(rep, S, name, arr, seq, w, stat)
                if got is not None and name == "get_linear_sigma" and w in (5, 6):
                    sigma_profiles[w] = got
                if got is not None and w == N:
                    link_whole(rep, obj, name, got[(N - 1) // 2], seq)
            check_composition(rep, S, obj, seq, w, rng)
            if w == N:
                rep.cnt("w_eq_N")
        else:
            np_ = S["np"]
            for name, fn, _ in fns:
                try:
                    wform = rng.choice([w, w, np_.int64(w), np_.uint8(w) if w < 256 else w, np_.uint16(w) if w < 65536 else w, np_.uint32(w), np_.int8(w) if w < 128 else w])
                    if type(wform).__name__.startswith("uint"):
                        rep.cnt("unsigned_numpy_windows_beyond_N")
                    r = fn(wform)
                except Exception:
                    rep.cnt("w_gt_N_rejected")
                else:
                    rep.viol("long_window_answered:" + name, "%s(%d) on %s (N=%d) answered %r instead of rejecting" % (
                        name, w, seq, N, S["np"].asarray(r).tolist()), sig={"fn": name, "excess": w - N})
            absent = [a for a in M.AA if a not in seq][:3]
            for grps in (None, [["K", "R"], ["E"]], [[a] for a in absent] if absent else [["W"]], []):
                try:
                    r = obj.get_linear_sequence_composition(w) if grps is None else obj.get_linear_sequence_composition(w, grps)
                except Exception:
                    rep.cnt("w_gt_N_rejected")
                else:
                    rep.viol("long_window_answered:get_linear_sequence_composition", "get_linear_sequence_composition(%d) on %s (N=%d) answered instead of rejecting" % (w, seq, N),
                             sig={"fn": "composition", "excess": w - N})
    if N < 5:
        # the documented default window is 5: on a shorter sequence an omitted window is an over-long window like any other
        for name, fn, _ in fns + [("get_linear_sequence_composition", obj.get_linear_sequence_composition, None)]:
            for how in ("omitted", "explicit"):
                try:
                    r = fn() if how == "omitted" else fn(5)
                except Exception:
                    rep.cnt("default_window_on_shorter_sequence_rejected")
                else:
                    rep.viol("long_window_answered:" + name, "%s(%s) on %s (N=%d) answered %r instead of rejecting the default window of 5" % (
                        name, "" if how == "omitted" else "5", seq, N, S["np"].asarray(r).tolist()), sig={"fn": name, "excess": 5 - N})
    if N >= 1 and rng.random() < 0.3:
        # an explicitly empty list of groups is the documented default: the seven standard groups
        w_ = rng.randint(1, N)
        try:
            a_ = S["np"].asarray(obj.get_linear_sequence_composition(w_, [])[1], dtype=float)
            b_ = S["np"].asarray(obj.get_linear_sequence_composition(w_)[1], dtype=float)
            same_ = a_.shape == b_.shape and bool((a_ == b_).all())
        except Exception as e:
            same_ = False
            a_ = b_ = "%s: %s" % (type(e).__name__, e)
        rep.cnt("explicit_empty_group_list_calls")
        if not same_:
            rep.viol("value:composition", "get_linear_sequence_composition(%d, []) on %s gives %r, the default groups give %r" % (w_, seq, a_, b_),
                     sig={"fn": "composition", "explicit_empty_list": True})
    # delta link (needs both sigma profiles, i.e. N >= 6; for N == 5 the 6-blob contributes 0)
    if N >= 5 and 5 in sigma_profiles:
        fcr = obj.get_FCR()
        ncpr = obj.get_NCPR()
        sig = 0.0 if fcr == 0 else ncpr ** 2 / fcr
        parts = []
        for w in (5, 6):
            if w > N:
                parts.append(0.0)
                continue
            prof = sigma_profiles.get(w)
            if prof is None:
                parts = None
                break
            off = (w - 1) // 2
            entries = prof[off:off + N - w + 1]
            parts.append(math.fsum((sig - e) ** 2 for e in entries) / len(entries))
        if parts is not None:
            rep.cnt("delta_link_checked")
            d = obj.get_delta()
            if not M.close(d, sum(parts) / 2):
                rep.viol("delta_link", "get_delta=%r on %s but the w=5,6 sigma profiles give %r" % (d, seq, sum(parts) / 2))
    # invalid group members are rejected
    if N >= 2:
        bad = rng.choice(["B", "X", "1", "", "DE", 7, None, "*"])
        try:
            r = obj.get_linear_sequence_composition(min(N, 3), [["K", bad], ["E"]])
        except Exception:
            rep.cnt("invalid_group_rejected")
        else:
            rep.viol("invalid_group_accepted", "get_linear_sequence_composition accepted a group containing %r on %s" % (bad, seq))
    if rep.evaluations % 300 == 1:
        rep.sample({"sequence": seq, "windows": windows[:12]})


def link_whole(rep, obj, name, centre, seq):
    if name == "get_linear_NCPR":
        want = obj.get_NCPR()
    elif name == "get_linear_FCR":
        want = obj.get_FCR()
    elif name == "get_linear_sigma":
        f = obj.get_FCR()
        want = 0.0 if f == 0 else obj.get_NCPR() ** 2 / f
    else:
        want = obj.get_uversky_hydropathy()
    if not M.close(centre, want):
        rep.viol("whole_sequence_link:" + name, "%s(w=N) on %s gives %r at the centre but the whole-sequence parameter is %r" % (name, seq, centre, want),
                 sig={"fn": name})


def check_composition(rep, S, obj, seq, w, rng):
    np = S["np"]
    N = len(seq)
    if rng.random() < 0.5:
        groups = DEFAULT_GROUPS
        rep.cnt("default_groups")
        try:
            res = obj.get_linear_sequence_composition(w) if rng.random() < 0.5 else obj.get_linear_sequence_composition(blobLen=w)
        except Exception as e:
            rep.viol("raised:composition", "get_linear_sequence_composition(%d) raised %s: %s on %s" % (w, type(e).__name__, e, seq))
            return
    else:
        k = rng.randint(1, 5) if rng.random() < 0.85 else rng.randint(9, 14)
        if k > 10:
            rep.cnt("more_than_10_user_groups")
        groups = []
        arg = []
        for gi in range(k):
            g = rng.sample(list(M.AA), rng.randint(1, 8) if rng.random() < 0.7 else rng.randint(9, 20))
            if len(g) > 10:
                rep.cnt("user_groups_larger_than_half_the_alphabet")
            if gi > 0 and rng.random() < 0.1:
                g = []                      # an empty group is a legal group: its density is 0 everywhere
                rep.cnt("empty_user_groups")
            elif gi > 0 and rng.random() < 0.15:
                g = list(groups[0])         # the same letters as the first group again (other order / case)
                rng.shuffle(g)
                rep.cnt("repeated_user_groups")
            if gi > 0 and rng.random() < 0.12:
                # a group written as one string that also reads as a word (class names, keywords): still the set of its letters
                word = rng.choice(gen.GROUP_WORDS)
                groups.append(word)
                arg.append(rng.choice([word, word.lower(), word.capitalize()]))
                rep.cnt("string_groups_that_read_as_words")
                continue
            groups.append("".join(g))
            v = [c.lower() if rng.random() < 0.3 else c for c in g]
            if g and rng.random() < 0.15:
                v = v + [rng.choice(g).lower(), rng.choice(g).upper()]       # a member named again, in the other case too
            arg.append(v if rng.random() < 0.6 else (tuple(v) if rng.random() < 0.5 else "".join(v)))
        rep.cnt("user_groups")
        try:
            res = obj.get_linear_sequence_composition(w, arg)
        except Exception as e:
            rep.viol("raised:composition", "get_linear_sequence_composition(%d, %r) raised %s: %s on %s" % (w, arg, type(e).__name__, e, seq))
            return
    try:
        pos, dens = res
        pos = list(np.asarray(pos, dtype=float))
        dens = np.atleast_2d(np.asarray(dens, dtype=float))
    except Exception as e:
        rep.viol("shape:composition", "get_linear_sequence_composition(%d) on %s returned %r" % (w, seq, res))
        return
    if pos != list(range(1, N + 1)) or dens.shape != (len(groups), N):
        rep.viol("shape:composition", "composition(w=%d) on %s: positions %r.., density shape %r, expected %d x %d" % (
            w, seq, pos[:8], dens.shape, len(groups), N))
        return
    for gi, g in enumerate(groups):
        want = model(lambda win, g=g: sum(1 for c in win if c in g) / len(win), seq, w)
        got = list(dens[gi])
        for i in range(N):
            if not M.close(got[i], want[i]):
                rep.viol("value:composition", "composition(w=%d, group %s) on %s: position %d is %r, model gives %r; got %r want %r" % (
                    w, g, seq, i + 1, got[i], want[i], got[:14], want[:14]), sig={"fn": "composition", "parity": w % 2})
                return
