"""C18 - a Wang-Landau run obeys the WL update rule and its outputs are self-consistent.

Observed: the guarded per-step hook in run_normal_WL (LOCALCIDER_VERIF=1:
wl_init / wl_proposal / wl_step), the machine's own RNG stream read from the
recording tape (two draws per step: move choice, acceptance), a wrapper around
the flat-check method, the return value, and the six files after the run.
Online monitor: a shadow WL automaton (current sequence and bin, g, H, f, steps
since the last check, iteration) that checks every step and every flat check.
Offline checker: returned array and DOS / histogram / g / sequence logs against
the shadow's bookkeeping."""
import contextlib
import io
import math
import os
import shutil
import tempfile
from collections import Counter

from .. import gen
from .. import refmodel as M
from ..tapes import Shim, TapeExhausted, installed

ID = "C18"
LEVEL = "exploration"
TECHNIQUE = ("runtime monitoring: online shadow Wang-Landau automaton fed by a guarded per-step trace hook and the recorded "
             "RNG tape, plus an offline checker over the run's return value and log files")
RULE = ("sequences of 10-22 residues with >= 3 of each charge and some neutrals x aligned bin ranges over M in {2,4,5,10} "
        "bins (full and partial, start state inside and outside) x flat-check period {1,7,50,200,1000} x flatness "
        "criterion {0,0.2,0.5,0.8} x convergence {e^0.6,e^0.3,1.2,e^0.1} x seeded tapes, a share with a hostile forced "
        "prefix on the machine's own stream; step budget per run (quick 3000, thorough 30000) - over-budget runs are "
        "truncated: their steps are still judged, their files are not; distinct = distinct (sequence, configuration, tape); "
        "non-trivial = run with at least one accepted and one rejected in-range proposal")
RULE += ("; added after the mutation rounds: 2-bin runs with a 2600-step first iteration (ln-DOS beyond 709.8); criterion 0.9 checked every 1-2 steps (streaks of >= 200 failing checks); a second run() on the same machine judged by a fresh shadow automaton; the first cases of every shard are judged again at its end")
RULE += ("; round 5: thresholds at or above the starting f (no step expected); 6-7 residue chains with few arrangements (proposals identical to the current sequence); requested ranges not aligned to any equal partition")
RULE += ("; round 6: a wall clock that jumps by hours or days between readings on a third of the runs; another machine set up on the same output directory before the run")
RULE += ("; round 8: chains of 31-40 residues; flatness criterion exactly 1; machines taken from a SequencePermutants front end that had been initialised with other settings")
RULE += ("; round 9: 50 / 100 bins with lower edges 0.29, 0.57, 0.58; check periods 41, 64, 128, 150, 250, 256, 333; 8-residue chains over 10 bins (unreachable bins) checked every 3-5 steps")
RULE += ("; round 10: thorough tier: single 12000-step iterations over two bins (ln-DOS beyond 5000); five iterations over two bins with 400-500 steps each (ln-DOS values with 7-8 significant digits in the files)")
EXHAUSTIVE = {"quick": False, "thorough": False}
ASSUMPTIONS = [
    "bin centres are (i+1/2)/M; a proposal is in range iff its bin index lies in [a, b-1] for the requested range [a/M, b/M]",
    "the acceptance decision is read as: accepted iff u < acceptProb where u is the machine's second uniform draw of the "
    "step (from the tape); 'accepted' is observed as the current-sequence object having been replaced",
    "flatness is judged exactly as H_i/mean(H_range) >= criterion in IEEE doubles (mean 0 is left unjudged)",
    "measure-zero distinctions (u == acceptProb) are out of reach; kappa values within 1e-9 of a clamp edge are not "
    "compared with the reference",
    "log files are compared at their print precision (%0.3f, %5.4f, %5.6f)",
    "a requested range that is not made of whole bins is read as the machine documents it: M = round(nbins / (binmax - binmin)) "
    "equal bins over [0,1] and the nbins consecutive bins starting at the one whose centre is nearest binmin + width/2; settings "
    "where that rule is ambiguous (near ties, range running past the last bin, 1/width within 0.08 of a half-integer or an integer) are not driven",
    "a run whose convergence threshold is at or above the starting modification factor makes no step",
]
REQUIRED = {"all": ["runs", "completed_runs", "steps", "accepted_steps", "rejected_in_range_steps", "out_of_range_proposals",
                    "flat_checks", "flat_checks_flat", "flat_checks_not_flat", "files_checked", "seqlog_lines_checked",
                    "partial_range_runs", "hostile_tapes", "start_outside_range_runs", "flat_boundary_exact_hits",
                    "second_runs_on_same_machine", "g_beyond_709_steps", "runs_beyond_30_iterations",
                    "runs_converged_before_the_first_step", "ranges_not_aligned_to_the_partition", "proposals_identical_to_the_current_sequence",
                    "runs_under_a_jumping_wall_clock", "other_machine_set_up_on_the_same_directory",
                    "runs_on_chains_longer_than_30", "runs_with_flatness_criterion_one", "machines_from_a_reinitialised_front_end",
                    "runs_with_50_or_100_bins", "runs_with_odd_check_periods", "runs_over_unreachable_bins", "runs_of_five_iterations_over_two_bins"]}
REQUIRED["thorough"] = REQUIRED["all"] + ["runs_with_ln_dos_beyond_5000", "runs_of_six_iterations_in_one_bin_ln_dos_beyond_10000"]
NRUNS = {"quick": 160, "thorough": 1200}
STEP_BUDGET = {"quick": 3000, "thorough": 30000}
WATCHDOG = {"quick": 1200, "thorough": 6 * 3600}


class StopRun(BaseException):
    pass


class HostileClock:
    """Stands in for the `time` module inside the sampler: every reading of the wall clock lies hours to days after the
    previous one (a suspended laptop, a clock correction), now and then before it.  The stated bookkeeping does not
    mention time, so a run under this clock obeys the same rule as any other."""

    def __init__(self, rng):
        import time as _real
        self._real = _real
        self._rng = rng
        self._now = _real.time()
        self.readings = 0

    def time(self):
        self.readings += 1
        self._now += self._rng.choice([0.0, 0.5, 3600.0, 13 * 3600.0, 40 * 3600.0, 30 * 86400.0, -7200.0])
        return self._now

    def __getattr__(self, name):
        return getattr(self._real, name)


_cfg = {"tier": "quick"}


def setup(S, tier, seed):
    _cfg["tier"] = tier
    _cfg["tmp"] = tempfile.mkdtemp(prefix="lcverif_c18_")
    wl = S["wlmod"]
    if not getattr(wl, "_VERIF_ON", False):
        _cfg["hook_missing"] = True
    cls = wl.WangLandauMachine
    name = "_WangLandauMachine__run_flatcheck"
    orig = getattr(cls, name)
    _cfg["orig_flatcheck"] = orig

    def wrapped(self, H, Hlocal, niter, f, hlog, glog, g):
        mon = _cfg.get("monitor")
        if mon is not None:
            mon.before_flatcheck(self, H, Hlocal, niter, f, g)
        out = orig(self, H, Hlocal, niter, f, hlog, glog, g)
        if mon is not None:
            mon.after_flatcheck(out)
        return out
    setattr(cls, name, wrapped)


def teardown(S):
    wl = S["wlmod"]
    setattr(wl.WangLandauMachine, "_WangLandauMachine__run_flatcheck", _cfg["orig_flatcheck"])
    wl._verif_sink = None
    shutil.rmtree(_cfg["tmp"], ignore_errors=True)


def cases(tier, seed):
    rng = gen.sub_rng(seed, ID)
    for i in range(NRUNS[tier]):
        n = rng.randint(10, 22)
        p = rng.randint(3, 6)
        q = rng.randint(3, 6)
        z = max(2, n - p - q)
        pat = [1] * p + [-1] * q + [0] * z
        rng.shuffle(pat)
        seq = gen.spell(rng, pat)
        Mb = rng.choice([2, 4, 5, 10])
        kind = i % 3
        if kind == 0:
            a, b = 0, Mb
        elif kind == 1:
            a = rng.randint(0, Mb - 1)
            b = rng.randint(a + 1, Mb)
        else:
            b = rng.randint(1, max(1, Mb - 1))         # excludes the top bin, where the run starts
            a = rng.randint(0, b - 1)
        easy = (i % 2 == 0)
        if i % 160 == 7 and tier == "thorough":
            # ln-DOS entries beyond 5000: a single 12000-step iteration over two bins
            yield {"s": seq, "M": 2, "a": 0, "b": 2, "flatchk": 12000, "flatcrit": 0.0, "conv": "e0.6",
                   "frozen": [], "hostile": False, "o": rng.randrange(1 << 30), "twice": False, "huge_g": True}
            continue
        if i % 160 == 23 and tier == "thorough":
            # six iterations of 5201 steps in ONE bin: ln-DOS passes 10^4 with five decimals in use (5201/32 = 162.53125); the DOS files
            # carry six decimals whatever the magnitude
            pat8 = [1, 1, 1, -1, -1, -1, 0, 0]
            rng.shuffle(pat8)
            yield {"s": gen.spell_plain(pat8), "M": 1, "a": 0, "b": 1, "flatchk": 5201, "flatcrit": 0.0, "conv": "e1/64",
                   "frozen": [], "hostile": False, "o": rng.randrange(1 << 30), "twice": False, "six_iter_one_bin": True,
                   "budget": 40000, "tape_budget": 600000}
            continue
        if i % 16 == 7:
            # a long first iteration with few bins: ln-DOS entries grow past ln(DBL_MAX) ~ 709.8 while ln f is still 1
            yield {"s": seq, "M": 2, "a": 0, "b": 2, "flatchk": 2600, "flatcrit": rng.choice([0.0, 0.2]), "conv": "e0.6",
                   "frozen": [], "hostile": False, "o": rng.randrange(1 << 30), "twice": False}
            continue
        if i % 16 == 3:
            # dozens of refinement iterations: every check succeeds (criterion 0), so the run is short in steps
            yield {"s": seq, "M": rng.choice([2, 4, 5]), "a": 0, "b": 0, "flatchk": rng.choice([1, 3, 10]), "flatcrit": 0.0,
                   "conv": rng.choice(["default", "1+1e-10", "1+1e-12"]), "frozen": [], "hostile": False, "o": rng.randrange(1 << 30),
                   "twice": False, "fullrange": True}
            continue
        if i % 16 == 5:
            # threshold at or above the starting modification factor: the run is over before its first step
            yield {"s": seq, "M": Mb, "a": a, "b": b, "flatchk": rng.choice([1, 7, 50]), "flatcrit": rng.choice([0.0, 0.5]),
                   "conv": rng.choice(["e", "3.0", "e+ulp"]), "frozen": [], "hostile": False, "o": rng.randrange(1 << 30), "twice": i % 32 == 5}
            continue
        if i % 16 == 13:
            # very short chains with few distinct arrangements: moves regularly hand back the sequence they were given
            pat6 = rng.choice([[1, -1, -1, -1, -1, 0], [1, 1, -1, -1, 0, 0], [1, -1, -1, -1, 0, 0, 0], [1, 1, 1, -1, -1, 0]])
            rng.shuffle(pat6)
            yield {"s": gen.spell_plain(pat6), "M": rng.choice([2, 3, 4]), "a": 0, "b": 0, "flatchk": rng.choice([700, 1000]), "flatcrit": 0.0,
                   "conv": "e0.3", "frozen": [], "hostile": False, "o": rng.randrange(1 << 30), "twice": False, "fullrange": True, "tiny": True}
            continue
        if i % 16 == 9:
            # a requested range that is not made of whole bins of any equal partition of [0,1]
            raw = nonaligned_range(rng)
            if raw is not None:
                nb, lo, hi, M_, a_ = raw
                yield {"s": seq, "M": M_, "a": a_, "b": a_ + nb, "raw": [nb, lo, hi], "flatchk": rng.choice([7, 50, 200]),
                       "flatcrit": rng.choice([0.0, 0.2]), "conv": "e0.6", "frozen": [], "hostile": False, "o": rng.randrange(1 << 30), "twice": False}
                continue
        if i % 16 == 1 and i % 32 == 1:
            # chains of more than 30 residues (the sampler shortens them in its banner; the logs must not)
            n2 = rng.randint(31, 40)
            pat2 = [1] * rng.randint(4, 7) + [-1] * rng.randint(4, 7)
            pat2 = pat2 + [0] * (n2 - len(pat2))
            rng.shuffle(pat2)
            yield {"s": gen.spell(rng, pat2), "M": rng.choice([2, 4]), "a": 0, "b": 0, "flatchk": rng.choice([20, 50]), "flatcrit": 0.0,
                   "conv": "e0.3", "frozen": [], "hostile": False, "o": rng.randrange(1 << 30), "twice": False, "fullrange": True, "long": True}
            continue
        if i % 16 == 1 and i % 32 == 17:
            # many fine bins with a partial range whose lower edge is not a binary fraction (0.29, 0.57, 0.58 ...)
            Mf = rng.choice([50, 100])
            a_f = rng.choice([29, 57, 58, 7, 14, 28]) * Mf // 100
            b_f = min(Mf, a_f + rng.randint(2, 6))
            yield {"s": seq, "M": Mf, "a": a_f, "b": b_f, "flatchk": rng.choice([7, 50]), "flatcrit": 0.0, "conv": "e0.6",
                   "frozen": [], "hostile": False, "o": rng.randrange(1 << 30), "twice": False, "fine": True}
            continue
        if i % 16 == 10:
            # five iterations over two bins: ln-DOS entries of several hundred with increments of 1/16 (7-8 significant digits in the files)
            yield {"s": seq, "M": 2, "a": 0, "b": 2, "flatchk": rng.choice([400, 500]), "flatcrit": 0.0, "conv": "e0.05",
                   "frozen": [], "hostile": False, "o": rng.randrange(1 << 30), "twice": False, "five_iter": True}
            continue
        if i % 16 == 6:
            # check periods that are not multiples of anything the sampler derives from them (progress dots every period // 20 steps)
            yield {"s": seq, "M": rng.choice([2, 4]), "a": 0, "b": 0, "flatchk": rng.choice([41, 64, 128, 150, 250, 256, 333]), "flatcrit": 0.0,
                   "conv": "e0.3", "frozen": [], "hostile": False, "o": rng.randrange(1 << 30), "twice": False, "fullrange": True, "odd_period": True}
            continue
        if i % 16 == 14:
            # a range containing bins that no arrangement of the chain falls into, checked often: the run never becomes flat
            pat8 = [1, 1, -1, 0, 0, 0, 0, 0]
            rng.shuffle(pat8)
            yield {"s": gen.spell_plain(pat8), "M": 10, "a": 0, "b": 10, "flatchk": rng.choice([3, 5]), "flatcrit": rng.choice([0.2, 0.5]),
                   "conv": "e0.6", "frozen": [], "hostile": False, "o": rng.randrange(1 << 30), "twice": False, "unreachable": True}
            continue
        if i % 16 == 15:
            # the flatness criterion at its upper end: every bin must hold at least the mean, i.e. all bins equal
            yield {"s": seq, "M": 2, "a": 0, "b": 2, "flatchk": rng.choice([2, 4, 10]), "flatcrit": rng.choice([1, 1.0]), "conv": "e0.6",
                   "frozen": [], "hostile": False, "o": rng.randrange(1 << 30), "twice": False, "crit_one": True}
            continue
        if i % 16 == 11:
            # strict criterion checked every step or two: hundreds of consecutive failing checks within one iteration
            yield {"s": seq, "M": rng.choice([4, 5]), "a": 0, "b": 0, "flatchk": rng.choice([1, 2]), "flatcrit": 0.9, "conv": "e0.6",
                   "frozen": [], "hostile": False, "o": rng.randrange(1 << 30), "twice": False, "fullrange": True}
            continue
        yield {"s": seq, "M": Mb, "a": a, "b": b, "twice": i % 6 == 2,
               "flatchk": rng.choice([1, 7, 50, 200] if easy else [7, 50, 200, 1000]),
               "flatcrit": 0.0 if i % 4 == 0 else rng.choice([0.0, 0.2, 0.5, 0.8]),
               "conv": rng.choice(["e0.6", "e0.6", "e0.3", "1.2", "e0.1"]) if easy else rng.choice(["e0.6", "e0.3"]),
               "frozen": [] if i % 5 else [0, 1], "hostile": i % 8 in (2, 4), "o": rng.randrange(1 << 30)}


def nonaligned_range(rng):
    """(nbins, binmin, binmax, M, a): a requested range whose width / nbins does not divide [0,1] evenly.  The machine is
    documented to lay an equal partition of [0,1] with M = round(nbins / (binmax - binmin)) bins over kappa space and to take
    the nbins consecutive bins starting at the one whose centre is nearest binmin + width/2; settings where that rule is
    ambiguous (ties, range running past the last bin) are not driven."""
    for _ in range(50):
        nb = rng.randint(2, 5)
        lo = rng.choice([0.0, 0.05, 0.1, 0.15, 0.2, 0.3, 0.35])
        hi = rng.choice([0.7, 0.75, 0.8, 0.85, 0.9, 0.95, 1.0])
        w = (hi - lo) / nb
        x = 1.0 / w
        if abs(x - round(x)) < 0.08 or abs(x - round(x)) > 0.42:
            continue
        M_ = int(round(x))
        centres = [(i + 0.5) / M_ for i in range(M_)]
        d = sorted((abs(c - (lo + w / 2)), i) for i, c in enumerate(centres))
        if d[1][0] - d[0][0] < 0.02:
            continue
        a_ = d[0][1]
        if a_ + nb > M_:
            continue
        return nb, lo, hi, M_, a_
    return None


CONV = {"e1/64": math.exp(2.0 ** -6), "e0.05": math.exp(0.05), "e": math.e, "3.0": 3.0, "e+ulp": math.nextafter(math.e, 3.0), "e0.6": math.exp(0.6), "e0.3": math.exp(0.3), "1.2": 1.2, "e0.1": math.exp(0.1), "default": math.exp(0.000001),
        "1+1e-10": 1.0 + 1e-10, "1+1e-12": 1.0 + 1e-12}


def kappa_ref(seq):
    """(value, judgeable) - reference kappa from own delta and the documented family maximum."""
    pat = M.pattern(seq)
    p, n, z = M.counts(pat)
    m = M.dmax_family(p, n, z)[0][0]
    if m == 0:
        return -1, True
    r = M.delta_float(pat) / m
    if min(abs(r - 1.0), abs(r - 1.1)) < 1e-9 and r != 1.0:
        return None, False
    return (1.0 if 1.0 < r < 1.1 else r), True


class Monitor:
    def __init__(self, rep, case, shim):
        self.rep = rep
        self.case = case
        self.shim = shim
        self.comp = Counter(case["s"])
        self.M = case["M"]
        self.a, self.b = case["a"], case["b"]
        self.centres = [(i + 0.5) / self.M for i in range(self.M)]
        self.flatchk = case["flatchk"]
        self.flatcrit = float(case["flatcrit"])
        self.conv = CONV[case["conv"]]
        self.budget = case.get("budget") or STEP_BUDGET[_cfg["tier"]]
        self.g = None
        self.H = None
        self.f = None
        self.cur_obj = None
        self.cur_seq = None
        self.cur_idx = None
        self.since_check = 0
        self.niter = 0
        self.nsteps = 0
        self.pending = None
        self.pending_flat = None
        self.dead = False
        self.finished_f = False
        self.glog_expect = []          # g after each successful check
        self.hlog_expect = []          # (iteration number, range histogram) per check
        self.f_at_success = []
        self.accepted = self.rejected = self.outside = 0
        self.bins_visited = set()

    # -- helpers ----------------------------------------------------------
    def bad(self, facet, detail, **sig):
        if not self.dead:
            self.rep.viol(facet, detail + " [run %s]" % self.describe(), sig=sig or None)
        self.dead = True
        raise StopRun()

    def describe(self):
        c = self.case
        return "seq=%s M=%d range=[%d,%d) flatchk=%d flatcrit=%s conv=%s step=%d" % (
            c["s"], c["M"], c["a"], c["b"], c["flatchk"], c["flatcrit"], c["conv"], self.nsteps)

    def in_range(self, idx):
        return self.a <= idx <= self.b - 1

    def argmin_ok(self, idx, k):
        d = [abs(c - k) for c in self.centres]
        try:
            return 0 <= int(idx) < self.M and d[int(idx)] <= min(d) + 1e-12
        except Exception:
            return False

    def vec_eq(self, a, b, tol=1e-9):
        try:
            return len(a) == len(b) and all(abs(float(x) - float(y)) <= tol * (1 + abs(float(y))) for x, y in zip(a, b))
        except Exception:
            return False

    def check_kappa(self, what, seq, k):
        want, ok = kappa_ref(seq)
        if ok and not M.close(k, want):
            self.bad("kappa_bookkeeping", "%s kappa %r but the true kappa of %s is %r" % (what, k, seq, want))

    # -- hook sink ---------------------------------------------------------
    def sink(self, kind, p):
        if self.dead:
            raise StopRun()
        getattr(self, "on_" + kind)(p)

    def on_wl_init(self, p):
        m = p["machine"]
        self.machine = m
        if Counter(p["oseq"].seq) != self.comp:
            self.bad("not_rearrangement", "start sequence %s is not a rearrangement of the input" % p["oseq"].seq)
        bc = [float(x) for x in p["bincts"]]
        if not self.vec_eq(bc, self.centres, 1e-12):
            self.bad("bin_centres", "bin centres %r, expected the midpoints %r" % (bc, self.centres))
        self.check_kappa("initial", p["oseq"].seq, p["kold"])
        if not self.argmin_ok(p["idx_old"], p["kold"]):
            self.bad("bin_index", "initial bin %r for kappa %r" % (p["idx_old"], p["kold"]))
        if any(x != 0 for x in p["g"]) or any(x != 0 for x in p["H"]) or len(p["g"]) != self.M or len(p["H"]) != self.M:
            self.bad("initial_histograms", "g=%r H=%r at start" % (p["g"], p["H"]))
        if not (float(p["f"]) > 1.0):
            self.bad("initial_f", "modification factor f=%r at start (must exceed 1)" % (p["f"],))
        self.g = [0.0] * self.M
        self.H = [0] * self.M
        self.f = float(p["f"])
        if self.f <= self.conv:
            self.finished_f = True
            self.rep.cnt("runs_converged_before_the_first_step")
        self.cur_obj = p["oseq"]
        self.cur_seq = p["oseq"].seq
        self.cur_idx = int(p["idx_old"])
        if not self.in_range(self.cur_idx):
            self.rep.cnt("start_outside_range_runs")

    def on_wl_proposal(self, p):
        if self.finished_f:
            self.bad("ran_past_convergence", "a step was taken although f=%r <= convergence %r" % (self.f, self.conv))
        if self.since_check >= self.flatchk:
            self.bad("flatcheck_missed", "%d steps since the last flat check, period %d" % (self.since_check, self.flatchk))
        if self.nsteps >= self.budget:
            self.truncated = True
            raise StopRun()
        o, n = p["oseq"], p["nseq"]
        if o is not self.cur_obj or o.seq != self.cur_seq:
            self.bad("state_changed", "current sequence %s differs from the one occupied after the previous step %s" % (o.seq, self.cur_seq))
        if Counter(n.seq) != self.comp:
            self.bad("not_rearrangement", "proposal %s is not a rearrangement of the input" % n.seq)
        if n.seq == o.seq:
            self.rep.cnt("proposals_identical_to_the_current_sequence")
        self.check_kappa("proposal", n.seq, p["knew"])
        self.check_kappa("current", o.seq, p["kold"])
        if int(p["idx_old"]) != self.cur_idx:
            self.bad("bin_index", "occupied bin %r, expected %r" % (p["idx_old"], self.cur_idx))
        if not self.argmin_ok(p["idx_new"], p["knew"]):
            self.bad("bin_index", "proposal bin %r for kappa %r (centres %r)" % (p["idx_new"], p["knew"], self.centres))
        if not self.vec_eq(p["g"], self.g) or [int(x) for x in p["H"]] != self.H:
            self.bad("histograms_drifted", "g/H before the step are %r / %r, bookkeeping says %r / %r" % (list(p["g"]), list(p["H"]), self.g, self.H))
        if not M.close(p["f"], self.f, rel=1e-12):
            self.bad("f_drifted", "f=%r, bookkeeping says %r" % (p["f"], self.f))
        idx_new = int(p["idx_new"])
        ap = float(p["acceptProb"])
        if self.in_range(idx_new):
            if p["skip"]:
                self.bad("in_range_skipped", "in-range proposal (bin %d) was marked as skipped" % idx_new)
            diff = self.g[self.cur_idx] - self.g[idx_new]
            want = 1.0 if diff >= 0 else math.exp(diff)
            if not M.close(ap, want, rel=1e-12, ab=1e-300):
                self.bad("acceptance_probability", "acceptProb=%r for bins %d->%d with g=%r; min(1,exp(g_old-g_new))=%r" % (
                    ap, self.cur_idx, idx_new, self.g, want), old=self.cur_idx, new=idx_new)
        else:
            self.outside += 1
            if ap != 0 or not p["skip"]:
                self.bad("out_of_range_not_rejected", "proposal in bin %d outside [%d,%d) got acceptProb=%r skip=%r" % (
                    idx_new, self.a, self.b, ap, p["skip"]))
        self.pending = (n, n.seq, idx_new, ap, bool(p["skip"]), float(p["knew"]))

    def on_wl_step(self, p):
        if self.pending is None:
            self.bad("hook_order", "step event without a proposal")
        nobj, nseq, idx_new, ap, skip, knew = self.pending
        self.pending = None
        stream = self.shim.streams[0] if self.shim.streams else None
        u = None
        if stream is not None and len(stream.own) >= 2 * (self.nsteps + 1):
            u = stream.own[2 * self.nsteps + 1]
        o = p["oseq"]
        accepted = o is not self.cur_obj
        if u is not None and u != ap:
            if accepted != (u < ap):
                self.bad("acceptance_decision", "uniform draw %r vs acceptProb %r but the move was %s" % (
                    u, ap, "accepted" if accepted else "rejected"), accepted=accepted)
        elif u is None:
            self.rep.cnt("acceptance_draw_unavailable")
        if accepted:
            if skip or not self.in_range(idx_new):
                self.bad("moved_out_of_range", "the chain moved to bin %d outside [%d,%d)" % (idx_new, self.a, self.b))
            if o.seq != nseq:
                self.bad("state_changed", "accepted %s but now occupies %s" % (nseq, o.seq))
            if int(p["idx_old"]) != idx_new:
                self.bad("bin_index", "after accepting a proposal in bin %d the occupied bin is %r" % (idx_new, p["idx_old"]))
            self.check_kappa("occupied", o.seq, p["kold"])
            self.cur_obj, self.cur_seq, self.cur_idx = o, o.seq, idx_new
            self.accepted += 1
        else:
            if o.seq != self.cur_seq or int(p["idx_old"]) != self.cur_idx:
                self.bad("state_changed", "move rejected but the occupied state changed to %s (bin %r)" % (o.seq, p["idx_old"]))
            if not skip:
                self.rejected += 1
        if not skip:
            self.g[self.cur_idx] += math.log(self.f)
            self.H[self.cur_idx] += 1
            self.bins_visited.add(self.cur_idx)
            if self.g[self.cur_idx] > 709.8:
                self.rep.cnt("g_beyond_709_steps")
        if not self.vec_eq(p["g"], self.g) or [int(x) for x in p["H"]] != self.H:
            self.bad("update_rule", "after the step g/H are %r / %r; adding ln f / 1 to the occupied bin %d%s gives %r / %r" % (
                list(p["g"]), list(p["H"]), self.cur_idx, " (skipped step: nothing)" if skip else "", self.g, self.H), skipped=skip)
        self.nsteps += 1
        self.since_check += 1

    # -- flat check wrapper ------------------------------------------------
    def before_flatcheck(self, machine, H, Hlocal, niter, f, g):
        if self.dead:
            raise StopRun()
        if self.since_check != self.flatchk:
            self.bad("flatcheck_schedule", "flat check after %d steps, period %d" % (self.since_check, self.flatchk))
        self.since_check = 0
        hr = self.H[self.a:self.b]
        if [int(x) for x in Hlocal] != hr or [int(x) for x in H] != self.H:
            self.bad("flatcheck_histogram", "flat check looks at %r (full %r); the range histogram is %r (full %r)" % (
                list(Hlocal), list(H), hr, self.H))
        if int(niter) != self.niter or not M.close(f, self.f, rel=1e-12):
            self.bad("flatcheck_state", "flat check with niter=%r f=%r, bookkeeping %r / %r" % (niter, f, self.niter, self.f))
        mean = sum(hr) / len(hr)
        if mean == 0:
            flat = None
        else:
            ratios = [h / mean for h in hr]
            flat = all(r >= self.flatcrit for r in ratios)
            if any(r == self.flatcrit for r in ratios):
                self.rep.cnt("flat_boundary_exact_hits")
        self.pending_flat = (flat, list(hr))
        self.hlog_expect.append((self.niter + 1, list(hr)))

    def after_flatcheck(self, out):
        flat, hr = self.pending_flat
        H2, f2, niter2, nstep2 = out
        self.rep.cnt("flat_checks")
        became = int(niter2) == self.niter + 1
        if flat is None:
            self.rep.cnt("flat_checks_unjudged_zero_mean")
            flat = became
        elif became != flat:
            self.bad("flatness_decision", "range histogram %r with criterion %r is %s but the run %s" % (
                hr, self.flatcrit, "flat" if flat else "not flat", "updated f" if became else "did not update f"), flat=flat)
        if nstep2 != 0:
            self.bad("flatcheck_state", "flat check returned step counter %r" % (nstep2,))
        if flat:
            self.rep.cnt("flat_checks_flat")
            self.fail_streak = 0
            if not M.close(f2, math.sqrt(self.f), rel=1e-12):
                self.bad("f_update", "flat: f went from %r to %r, expected the square root %r" % (self.f, f2, math.sqrt(self.f)))
            if any(x != 0 for x in H2) or len(H2) != self.M:
                self.bad("histogram_reset", "flat: histogram after the check is %r" % (list(H2),))
            self.f_at_success.append(self.f)
            self.f = float(f2)
            self.H = [0] * self.M
            self.niter += 1
            self.glog_expect.append(list(self.g))
            if self.f <= self.conv:
                self.finished_f = True
            if self.niter == 31:
                self.rep.cnt("runs_beyond_30_iterations")
        else:
            self.rep.cnt("flat_checks_not_flat")
            self.fail_streak = getattr(self, "fail_streak", 0) + 1
            if self.fail_streak == 200:
                self.rep.cnt("streaks_of_200_failed_checks")
            if not M.close(f2, self.f, rel=1e-12) or [int(x) for x in H2] != self.H or int(niter2) != self.niter:
                self.bad("not_flat_changed_state", "not flat, yet f/H/niter became %r / %r / %r" % (f2, list(H2), niter2))


def parse_floats(line):
    return [float(x) for x in line.replace("\n", "").split("\t") if x.strip() != ""]


def check_files(rep, mon, case, outdir, result, S):
    np = S["np"]
    bad = lambda facet, detail: rep.viol(facet, detail + " [run %s]" % mon.describe())
    arr = np.asarray(result, dtype=float)
    if arr.shape != (2, mon.M) or not mon.vec_eq(list(arr[0]), mon.centres, 1e-12) or not mon.vec_eq(list(arr[1]), mon.g):
        bad("returned_array", "run() returned %r; expected centres %r and g %r" % (arr.tolist(), mon.centres, mon.g))
        return
    rd = lambda name: open(os.path.join(outdir, name)).read().split("\n")
    # DOS files
    for name, lo, hi in (("DOS.txt", 0, mon.M), ("DOS_local.txt", mon.a, mon.b)):
        lines = [l for l in rd(name)[1:] if l.strip()]
        want = [(mon.centres[i], mon.g[i]) for i in range(lo, hi)]
        got = [parse_floats(l) for l in lines]
        if len(got) != len(want) or any(len(gk) != 2 or abs(gk[0] - w[0]) > 5.1e-4 or abs(gk[1] - w[1]) > 5.1e-7 + 1e-13 * abs(w[1])
                                        for gk, w in zip(got, want)):
            bad("dos_file", "%s holds %r, expected %r" % (name, got, want))
            return
    hb = [float(l) for l in rd("histogram_bins.txt") if l.strip()]
    want_hb = mon.centres + mon.centres[mon.a:mon.b]
    if len(hb) != len(want_hb) or any(abs(x - y) > 5.1e-5 for x, y in zip(hb, want_hb)):
        bad("histogram_bins_file", "histogram_bins.txt holds %r, expected %r" % (hb, want_hb))
        return
    # hlog: iteration headers and one line per check
    it = None
    got_h = []
    for l in rd("hlog.txt")[1:]:
        if not l.strip():
            continue
        if l.startswith("iter"):
            it = int(l.split()[1].rstrip(":"))
            continue
        vals = parse_floats(l)
        got_h.append((it, int(vals[0]), [int(v) for v in vals[1:]]))
    want_h = [(itn, k + 1, h) for k, (itn, h) in enumerate(mon.hlog_expect)]
    if got_h != want_h:
        bad("hlog_file", "hlog.txt lists %r, the checks were %r" % (got_h[:6], want_h[:6]))
        return
    # glog: g at every successful check
    got_g = [parse_floats(l) for l in rd("glog.txt")[1:] if l.strip()]
    if len(got_g) != len(mon.glog_expect) or any(int(gl[0]) != k + 1 or len(gl) != mon.M + 1 or
                                                 any(abs(x - y) > 5.1e-5 for x, y in zip(gl[1:], ge))
                                                 for k, (gl, ge) in enumerate(zip(got_g, mon.glog_expect))):
        bad("glog_file", "glog.txt lists %r, g at the successful checks was %r" % (got_g[:4], mon.glog_expect[:4]))
        return
    # per-iteration increment of g = ln f_k x final histogram of that iteration (range bins), from the files alone
    prev = [0.0] * mon.M
    for k, gl in enumerate(got_g):
        last_h = [h for (itn, _, h) in got_h if itn == k + 1][-1]
        lnf = math.log(mon.f_at_success[k])          # the f in force during iteration k+1, as observed
        for j, i in enumerate(range(mon.a, mon.b)):
            inc = gl[1 + i] - prev[i]
            if abs(inc - lnf * last_h[j]) > 1.1e-4:
                bad("g_increment", "iteration %d bin %d: g rose by %r but ln f x final histogram = %r x %d" % (k + 1, i, inc, lnf, last_h[j]))
                return
        prev = gl[1:]
    # seqlog: every logged sequence is a rearrangement carrying its true kappa
    nl = 0
    for l in rd("seqlog.txt")[1:]:
        if not l.strip():
            continue
        ks, sq = l.split("\t")
        nl += 1
        if Counter(sq.strip()) != mon.comp:
            bad("seqlog_file", "seqlog lists %r, not a rearrangement of the input" % sq)
            return
        want, ok = kappa_ref(sq.strip())
        if ok and abs(float(ks) - want) > 5.1e-4:
            bad("seqlog_file", "seqlog gives kappa %s for %s whose true kappa is %r" % (ks, sq.strip(), want))
            return
    rep.cnt("seqlog_lines_checked", nl)
    rep.cnt("files_checked")


def judge(case, rep, S):
    if case.get("fullrange"):
        case = dict(case, b=case["M"])
    if _cfg.get("hook_missing"):
        rep.inconclusive("the guarded hook is not active (LOCALCIDER_VERIF != 1 or hook commit missing)")
        return
    wl = S["wlmod"]
    rng = gen.sub_rng(case["o"], ID)
    hostile = None
    if case.get("hostile"):
        hostile = [[rng.choice(["lo", "hi"]) for _ in range(rng.randint(2, 24))]] + [[]]
        rep.cnt("hostile_tapes")
    shim = Shim("%s/%s" % (ID, case["o"]), budget=max(20000, 3 * STEP_BUDGET[_cfg["tier"]], case.get("tape_budget", 0)), hostile=hostile)
    mon = Monitor(rep, case, shim)
    mon.truncated = False
    outdir = tempfile.mkdtemp(dir=_cfg["tmp"])
    Mb, a, b = case["M"], case["a"], case["b"]
    rep.cnt("runs")
    if case.get("long"):
        rep.cnt("runs_on_chains_longer_than_30")
    if case.get("crit_one"):
        rep.cnt("runs_with_flatness_criterion_one")
    for key_, cnt_ in (("huge_g", "runs_with_ln_dos_beyond_5000"), ("five_iter", "runs_of_five_iterations_over_two_bins"), ("six_iter_one_bin", "runs_of_six_iterations_in_one_bin_ln_dos_beyond_10000"), ("fine", "runs_with_50_or_100_bins"), ("odd_period", "runs_with_odd_check_periods"), ("unreachable", "runs_over_unreachable_bins")):
        if case.get(key_):
            rep.cnt(cnt_)
    if (a, b) != (0, Mb):
        rep.cnt("partial_range_runs")
    result = None
    completed = False
    _cfg["monitor"] = mon
    wl._verif_sink = mon.sink
    clock = None
    saved_clock = None
    if case["o"] % 3 == 0:
        clock = HostileClock(gen.sub_rng(case["o"], ID, "clock"))
        saved_clock = (wl.t, wl.time, S["seqmod"].time)
        wl.t = wl.time = S["seqmod"].time = clock
        rep.cnt("runs_under_a_jumping_wall_clock")
    try:
        with installed([S["seqmod"], wl], shim), contextlib.redirect_stdout(io.StringIO()):
            if case.get("raw"):
                nb_, lo_, hi_ = case["raw"]
                rep.cnt("ranges_not_aligned_to_the_partition")
            else:
                nb_, lo_, hi_ = b - a, a / Mb, b / Mb
            if case["o"] % 4 == 2:
                # through the SequencePermutants front end, which had been initialised with other settings before
                pobj = S["SPerm"](case["s"])
                other_nb = 3 if nb_ != 3 else 5
                pobj.initializeWangLandauParameters(outdir, set(), other_nb, 0.0, 1.0, 17, 0.4, 1.3)
                pobj.initializeWangLandauParameters(outdir, set(case["frozen"]), nb_, lo_, hi_, case["flatchk"], case["flatcrit"], CONV[case["conv"]])
                machine = pobj.WLM
                rep.cnt("machines_from_a_reinitialised_front_end")
            else:
                machine = wl.WangLandauMachine(case["s"], outdir, set(case["frozen"]), nb_, lo_, hi_,
                                               case["flatchk"], case["flatcrit"], CONV[case["conv"]])
            if case["o"] % 5 == 1:
                # another machine is set up on the same output directory (other binning) before this one runs: what this run
                # writes and returns is still its own
                other_bins = 3 if Mb != 3 else 7
                wl.WangLandauMachine(case["s"][::-1], outdir, set(), other_bins, 0.0, 1.0, 13, 0.3, 1.5)
                rep.cnt("other_machine_set_up_on_the_same_directory")
            result = machine.run()
            completed = True
            if case.get("twice") and not mon.dead and mon.finished_f and not mon.truncated:
                # a second run of the SAME machine is a run like any other: it starts from empty g / H
                check_files(rep, mon, case, outdir, result, S)
                first = mon
                shim2 = Shim("%s/%s/second" % (ID, case["o"]), budget=20000)
                mon = Monitor(rep, case, shim2)
                mon.truncated = False
                _cfg["monitor"] = mon
                wl._verif_sink = mon.sink
                completed = False
                for m_ in (S["seqmod"], wl):
                    m_.rng = shim2
                rep.cnt("second_runs_on_same_machine")
                result = machine.run()
                completed = True
    except StopRun:
        pass
    except TapeExhausted:
        rep.cnt("runs_stopped_by_a_non_terminating_move")
    except Exception as e:
        # a block or cluster move that declines (the library's own exception: no arrangement with another delta found, too few
        # charged residues) ends the run; on chains with a handful of arrangements that happens.  The steps taken up to there
        # have been judged one by one; the statement does not speak about runs a move refuses to continue
        import traceback
        frames = traceback.extract_tb(e.__traceback__)
        inner = frames[-1].name if frames else ""
        if type(e).__module__.startswith("localcider") and inner in ("permute_block_swap", "permute_cluster_charges"):
            rep.cnt("runs_ended_by_a_declining_move")
        else:
            raise
    finally:
        wl._verif_sink = None
        _cfg["monitor"] = None
        if saved_clock is not None:
            wl.t, wl.time, S["seqmod"].time = saved_clock
            rep.cnt("wall_clock_readings", clock.readings)
    rep.cnt("steps", mon.nsteps)
    rep.cnt("accepted_steps", mon.accepted)
    rep.cnt("rejected_in_range_steps", mon.rejected)
    rep.cnt("out_of_range_proposals", mon.outside)
    rep.cnt("bins_visited", len(mon.bins_visited))
    rep.cnt("iterations", mon.niter)
    if mon.accepted and mon.rejected:
        rep.distinct((case["s"], Mb, a, b, case["flatchk"], case["flatcrit"], case["conv"], case["o"]))
    if completed and not mon.dead:
        rep.cnt("completed_runs")
        if not mon.finished_f:
            rep.viol("stopped_early", "run() returned while f=%r > convergence %r [run %s]" % (mon.f, mon.conv, mon.describe()))
        else:
            check_files(rep, mon, case, outdir, result, S)
    elif not mon.dead:
        rep.cnt("truncated_runs")
    shutil.rmtree(outdir, ignore_errors=True)
    if rep.evaluations % 6 == 1:
        rep.sample({"config": {k: case[k] for k in ("s", "M", "a", "b", "flatchk", "flatcrit", "conv", "frozen", "hostile")},
                    "steps": mon.nsteps, "accepted": mon.accepted, "rejected": mon.rejected, "out_of_range": mon.outside,
                    "flat_checks": len(mon.hlog_expect), "iterations": mon.niter, "completed": completed,
                    "final_g": mon.g})
