"""C14 - sequence files parse to exactly their residues.

Oracle: independent line/character parser model written from the statement,
used differentially: the real parser's outcome (string or exception) must equal
the model's on generated layouts and on single-character corruptions of them
(judged through the model, so a corruption that merely changes the layout is
judged by what it does).  The object built with sequenceFile= must answer an
analysis battery like the object built from the parsed string.  Files are
overwritten in place under the same path (also with same-size content), the way
a user edits a file, so stale results from an earlier parse are seen."""
import os
import shutil
import tempfile

from .. import gen
from .. import refmodel as M
from .c13 import battery, same

ID = "C14"
LEVEL = "exploration"
TECHNIQUE = "runtime monitoring: differential oracle against an independent parser model over generated layouts and single-character corruptions"
RULE = ("random sequences x layouts (header or not and where, line length 1..80, 10-residue blocks, left/right position "
        "numbers, blank lines, leading/trailing spaces, LF/CRLF/CR, final newline or not, final '*' on the last line "
        "or alone) x sampled single-character corruptions (insert/replace, at line starts / ends / random positions) "
        "from a panel of ASCII and non-ASCII characters; every variant is written to the same path and parsed by the "
        "real parser; distinct = distinct file content; non-trivial = content whose model outcome is specified "
        "(a residue string or an error)")
RULE += ("; added after the mutation rounds: file names with blanks / non-ASCII letters, relative and pathlib paths; stray non-UTF-8 bytes inside sequence lines; a re-used parser object and the front-end constructor on every fifth variant (also rejected ones); a second object built from the same file after the first was modified; the first cases of every shard are judged again at its end")
RULE += ("; round 7: residue lines that begin with record keywords of other formats (SQ, ID, AC, SEQRES, ...); files of 70,000 (thorough 300,000) residues as one line and wrapped")
RULE += ("; round 8: rewrites that keep the file's time stamps (a third of the histories)")
RULE += ("; round 9: decimal digits of other scripts; header lines of 1-9 kB")
RULE += ("; round 10: headers as PIR / UniProt / NCBI / PDB write them (also with '*', ';', '//'); whole foreign lines ('//', 'END', 'ORIGIN', ...) between or after the residue lines")
EXHAUSTIVE = {"quick": False, "thorough": False}
ASSUMPTIONS = [
    "line breaks are LF, CRLF or CR; a header is a line whose first character is '>'",
    "not judged because the statement is silent: files whose residues are empty; whitespace other than space/newline "
    "(tab, form feed, NBSP, ...); lower-case letters of the 20 residues; a '>' preceded by spaces",
    "header lines contain ASCII only (the parser opens files in the locale's encoding)",
]
REQUIRED = {"all": ["layouts", "clean_parsed", "corruptions_rejected", "corruptions_still_valid", "second_header_cases",
                    "star_cases", "same_size_overwrites", "object_battery_compared", "crlf_layouts", "numbered_layouts", "second_file_object_checked", "pathlib_paths", "relative_paths", "raw_byte_corruptions", "reused_parser_and_frontend_parses", "lines_starting_with_record_keywords", "files_beyond_64kB", "histories_with_preserved_file_times"]}
NLAYOUT = {"quick": 600, "thorough": 6000}
NCORR = {"quick": 30, "thorough": 60}
PANEL = list("*>#-_.,;:!?@$%&/\\|()[]{}<=+~^'\"`") + list("BJOUXZbjouxz") + list("aceg") + ["\t", "\x0c", "\x00", "\x7f", "\n",
         "\r", " ", "0", "7", "é", "Ж", "Ａ", " ", "①", "\u0663", "\u0969", "\uff13", "\u0e53", "\u00b2", "\u06f7", "\U0001d7d1"]
ERR = "<<ERROR>>"
UNSPEC = "<<UNSPECIFIED>>"

_dir = {"path": None}


def setup(S, tier, seed):
    _dir["path"] = tempfile.mkdtemp(prefix="lcverif_c14_")
    _dir["tier"] = tier


def teardown(S):
    if _dir["path"]:
        shutil.rmtree(_dir["path"], ignore_errors=True)


def model(text):
    t = text.replace("\r\n", "\n").replace("\r", "\n")
    header = False
    out = []
    error = False
    unspec = False
    for line in t.split("\n"):
        core = line.strip(" ")
        if core != line.strip():
            unspec = True               # other whitespace at the ends of the line
            core = line.strip()
        if not core:
            continue
        if core[0] == ">":
            if line[0] != ">":
                unspec = True           # '>' preceded by blanks
            if header:
                error = True
            header = True
            continue
        for ch in core:
            if ch in M.AA:
                out.append(ch)
            elif ch == " " or ch in "0123456789":
                pass
            elif ch == "*":
                out.append(ch)
            elif ch.upper() in M.AA and len(ch.upper()) == 1:
                unspec = True                       # lower-case residue letter: statement silent
            else:
                error = True                        # includes tabs, form feeds, ... INSIDE a sequence line
    s = "".join(out)
    k = s.count("*")
    if k > 1 or (k == 1 and s[-1] != "*"):
        error = True
    if error:
        return ERR
    if unspec:
        return UNSPEC
    s = s.rstrip("*")
    if not s:
        return UNSPEC
    return s


def build_layout(rng, seq):
    nl = rng.choice(["\n", "\n", "\r\n", "\r"])
    width = rng.choice([1, 7, 10, 13, 50, 60, 70, 80, rng.randint(1, 80)])
    style = rng.choice(["plain", "plain", "blocks", "left_numbers", "right_numbers", "genbank"])
    lines = []
    pos = 0
    while pos < len(seq):
        chunk = seq[pos:pos + width]
        if style in ("blocks", "genbank", "left_numbers"):
            chunk_txt = " ".join(chunk[i:i + 10] for i in range(0, len(chunk), 10))
        else:
            chunk_txt = chunk
        if style in ("left_numbers", "genbank"):
            chunk_txt = "%9d %s" % (pos + 1, chunk_txt)
        elif style == "right_numbers":
            chunk_txt = "%s %d" % (chunk_txt, pos + len(chunk))
        if rng.random() < 0.15:
            chunk_txt = " " * rng.randint(1, 4) + chunk_txt
        if rng.random() < 0.15:
            chunk_txt = chunk_txt + " " * rng.randint(1, 4)
        lines.append(chunk_txt)
        pos += width
        if rng.random() < 0.1:
            lines.append("" if rng.random() < 0.5 else "   ")
    star = rng.choice(["none", "none", "same_line", "own_line", "own_line_spaces", "then_number", "then_length_line"])
    if star == "same_line":
        lines[-1] = lines[-1].rstrip(" ") + "*" if style != "right_numbers" else lines[-1] + "*"
    elif star == "own_line":
        lines.append("*")
    elif star == "own_line_spaces":
        lines.append("  * ")
    elif star == "then_number":
        lines[-1] = lines[-1].rstrip(" ") + "* %d" % len(seq)          # EMBL / UniProt style: numbering after the stop
    elif star == "then_length_line":
        lines.append("*")
        lines.append("  %d  " % len(seq))
    head = rng.choice(["none", "top", "top", "after_blank"])
    if head != "none":
        hlen = rng.choice([0, 0, 1, rng.randint(0, 40), rng.randint(0, 40), rng.randint(0, 40), rng.choice([1020, 1023, 1024, 1100, 2500, 9000])])
        htxt = ">" + "".join(rng.choice("abcXYZ |_-.:*>0123456789ACDEFGHIKLMNPQRSTVWY") for _ in range(hlen))
        if rng.random() < 0.1:
            htxt = ">" + " " * rng.randint(1, 3)          # a header that is only the marker (and blanks)
        elif rng.random() < 0.2:
            # headers as databases write them (PIR / NBRF, UniProt, NCBI, PDB): a header is a header, whatever it says
            htxt = rng.choice([">P1;CRAB_ANAPL", ">F1;XYZ", ">DL;A12345", ">N1;seq", ">sp|P37840|SYUA_HUMAN Alpha-synuclein OS=Homo sapiens",
                               ">gi|4507109|ref|NP_000336.1| alpha-synuclein [Homo sapiens]", ">1XQ8:A|PDBID|CHAIN|SEQUENCE", ">P53_HUMAN R213* truncation",
                               ">seq1 len=140 // draft", ">tr|A0A024|A0A024_HUMAN *", ">ENA|CAA12345|CAA12345.1 ; comment"])
        if head == "after_blank":
            lines = ["", "  "] + [htxt] + lines
        else:
            lines = [htxt] + lines
    if rng.random() < 0.1:
        lines.append("")
    text = nl.join(lines)
    if rng.random() < 0.7:
        text += nl
    return text, {"newline": repr(nl), "width": width, "style": style, "star": star, "header": head}


def corruptions(rng, text, n):
    out = []
    starts = [0] + [i + 1 for i, c in enumerate(text) if c in "\n\r" and i + 1 < len(text)]
    ends = [i for i, c in enumerate(text) if c in "\n\r"] + [len(text)]
    for _ in range(n):
        ch = rng.choice(PANEL)
        r = rng.random()
        if r < 0.25:
            i = rng.choice(starts)
        elif r < 0.45:
            i = rng.choice(ends)
        else:
            i = rng.randint(0, len(text))
        if rng.random() < 0.6 and i < len(text):
            out.append(("replace", i, ch, text[:i] + ch + text[i + 1:]))
        else:
            out.append(("insert", i, ch, text[:i] + ch + text[i:]))
    # targeted: second header, doubled star, star moved inward
    first_seq_line = None
    for st in starts:
        if st < len(text) and text[st] not in ">\n\r ":
            first_seq_line = st
            break
    if first_seq_line is not None:
        out.append(("replace", first_seq_line, ">", text[:first_seq_line] + ">" + text[first_seq_line + 1:]))
    body_end = len(text.rstrip("\r\n "))
    out.append(("insert", body_end, "*", text[:body_end] + "*" + text[body_end:]))
    if body_end > 0:
        out.append(("replace", body_end - 1, "*", text[:body_end - 1] + "*" + text[body_end:]))
    out.append(("insert", len(text), ">late header", text + "\n>late header\n"))
    # a whole foreign LINE between or after the sequence lines (record terminators and keywords of other formats)
    mids = [s_ for s_ in starts if s_ > 0]
    for line_ in rng.sample(["//", "///", "END", ".", "--", "ORIGIN", "//\nACDEF", "@", "+"], 3):
        at = rng.choice(mids) if mids and rng.random() < 0.6 else len(text)
        nl_ = "\n" if not text[:at].endswith(("\n", "\r")) and at > 0 else ""
        out.append(("insert", at, line_, text[:at] + nl_ + line_ + "\n" + text[at:]))
    return out


def cases(tier, seed):
    rng = gen.sub_rng(seed, ID)
    for w in ["ACDEFGHIKLMNPQRSTVWYNAN", "MKVLAGGSTQINF", "NAN", "INF", "ACDEFGHIKLINFINITY", "MKTAYIAKQRNANGSQ", "DEAD", "NANINFNAN"]:
        yield {"s": w, "o": rng.randrange(1 << 30)}
    for i in range(NLAYOUT[tier]):
        yield {"s": gen.rand_seq(rng, hi=300 if i % 5 == 0 else 90), "o": rng.randrange(1 << 30)}
    # residue lines that begin with what other record formats use as line keywords (all of them valid residue letters)
    yield {"plain": "keywords", "o": rng.randrange(1 << 30)}
    # files well beyond 64 kB, as one line and wrapped (parser only: building an object of that length is another story)
    yield {"plain": "large", "o": rng.randrange(1 << 30), "n": 70000 if tier == "quick" else 300000}


def path_form(path, rng, rep):
    """The same file named the way users name files: absolute, relative to the current directory, pathlib."""
    import pathlib
    r = rng.random()
    if r < 0.6:
        return path, None
    if r < 0.8:
        rep.cnt("pathlib_paths")
        return pathlib.Path(path), None
    rep.cnt("relative_paths")
    return os.path.basename(path), os.path.dirname(path)


def parse_real(S, path, rng, rep):
    P = S["parsermod"].SequenceFileParser
    arg, cwd = path_form(path, rng, rep)
    old = os.getcwd()
    try:
        if cwd:
            os.chdir(cwd)
        return P().parseSeqFile(arg) if rng.random() < 0.7 else P().parseSeqFile(arg, silent=True)
    except Exception as e:
        return ERR
    finally:
        os.chdir(old)


def write(path, text):
    with open(path, "wb") as fh:
        fh.write(text if isinstance(text, bytes) else text.encode("utf-8"))


RAW_BYTES = [b"\xe9", b"\xff", b"\xa0", b"\xc3", b"\x86", b"\xe2\x82", b"\xfe\xff"]
_long_lived = {}


LINE_KEYWORDS = ["SQ", "ID", "AC", "DE", "KW", "FT", "CC", "DR", "RN", "RA", "RT", "RL", "GN", "END", "TER", "SEQRES", "HEADER", "TITLE",
                 "REMARK", "SEQ", "LENGTH", "NAME", "DATE", "CDS"]


def judge_plain(case, rep, S):
    rng = gen.sub_rng(case["o"], ID, "plain")
    P = S["parsermod"].SequenceFileParser
    path = os.path.join(_dir["path"], "plain_%s.txt" % case["plain"])
    if case["plain"] == "keywords":
        for kw in LINE_KEYWORDS:
            for width in (len(kw), len(kw) + 1, 10, 60):
                body = [kw + "".join(rng.choice(M.AA) for _ in range(width - len(kw))) for _ in range(rng.randint(2, 5))]
                for header in ("", ">sp|P1|TEST\n"):
                    for sep in (" ", "   "):
                        lines = body if rng.random() < 0.5 else [kw + sep + l[len(kw):] if len(l) > len(kw) else l for l in body]
                        want = "".join("".join(l.split()) for l in lines)
                        write(path, header + "\n".join(lines) + "\n")
                        try:
                            got = P().parseSeqFile(path)
                        except Exception as e:
                            got = ERR
                        rep.cnt("lines_starting_with_record_keywords")
                        if got != want:
                            rep.viol("parse_outcome", "residue lines that begin with %r (file %r): parser gave %s, the residues are %r" % (
                                kw, (header + "\n".join(lines))[:200], "an error" if got == ERR else repr(got[:80]), want[:80]),
                                sig={"want_error": False, "got_error": got == ERR, "char": kw, "kind": "keyword_line_start"})
                            return
        return
    n = case["n"]
    seq = "".join(rng.choice(M.AA) for _ in range(n))
    for width in (60, n, 10, 997):
        text = ">big\n" + "\n".join(seq[i:i + width] for i in range(0, n, width)) + "\n"
        write(path, text)
        try:
            got = P().parseSeqFile(path)
        except Exception:
            got = ERR
        rep.cnt("files_beyond_64kB")
        if got != seq:
            rep.viol("parse_outcome", "a %d-residue file wrapped at %d: parser gave %s" % (
                n, width, "an error" if got == ERR else "%d residues (first difference at %d)" % (
                    len(got), next((k for k, (a, b) in enumerate(zip(got, seq)) if a != b), min(len(got), len(seq))))),
                sig={"want_error": False, "got_error": got == ERR, "char": None, "kind": "large_file"})
            break
    try:
        os.remove(path)
    except OSError:
        pass


def judge(case, rep, S):
    if case.get("plain"):
        return judge_plain(case, rep, S)
    seq = case["s"]
    rng = gen.sub_rng(case["o"], ID)
    text, info = build_layout(rng, seq)
    path = os.path.join(_dir["path"], ["seqfile_0.txt", "my sequence (copy) 1.fasta", "s\u00e9quence_\u03b1_2.txt"][case["o"] % 3])
    rep.cnt("layouts")
    if info["newline"] == repr("\r\n"):
        rep.cnt("crlf_layouts")
    if info["style"] in ("left_numbers", "right_numbers", "genbank"):
        rep.cnt("numbered_layouts")
    variants = [("clean", None, None, text)] + corruptions(rng, text, NCORR[_dir.get("tier", "quick")])
    prev_size = None
    prev_ok = False
    # corruptions that are not text at all: stray bytes (not valid UTF-8) inside a sequence line must be rejected too
    enc = text.encode("utf-8")
    body_positions = [k for k in range(len(enc)) if 65 <= enc[k] <= 90]
    for _ in range(3):
        if body_positions:
            k = rng.choice(body_positions)
            raw = rng.choice(RAW_BYTES)
            write(path, enc[:k] + raw + enc[k + (1 if rng.random() < 0.5 else 0):])
            if True:
                # position k is a capital letter; it lies in a sequence line unless it is inside the header line
                line_start = max(enc.rfind(b"\n", 0, k), enc.rfind(b"\r", 0, k)) + 1
                in_header = enc[line_start:line_start + 1] == b">"
                got_raw = parse_real(S, path, rng, rep)
                if not in_header:
                    rep.cnt("raw_byte_corruptions")
                    if got_raw != ERR:
                        rep.viol("parse_outcome", "bytes %r inside a sequence line of %r: parser returned %r instead of rejecting the file" % (
                            raw, info, got_raw[:80]), sig={"want_error": True, "got_error": False, "char": repr(raw), "kind": "raw_bytes"})
    keep_times = None
    if case["o"] % 3 == 1:
        rep.cnt("histories_with_preserved_file_times")
    for kind, i, ch, content in variants:
        want = model(content)
        size = len(content.encode("utf-8"))
        write(path, content)
        if case["o"] % 3 == 1:
            # the file is replaced the way `cp -p`, `rsync -t` or an archive extraction replace it: new content, old time stamps
            if keep_times is None:
                st_ = os.stat(path)
                keep_times = (st_.st_atime_ns, st_.st_mtime_ns)
            else:
                os.utime(path, ns=keep_times)
        if prev_ok and size == prev_size:
            rep.cnt("same_size_overwrites")
        got = parse_real(S, path, rng, rep)
        if rng.random() < 0.2:
            # a long-lived parser object and the front-end constructor see the same file the same way,
            # whatever they were given before (also files they rejected)
            lp = _long_lived.setdefault("p", S["parsermod"].SequenceFileParser())
            try:
                got2 = lp.parseSeqFile(path)
            except Exception:
                got2 = ERR
            try:
                got3 = S["SP"](sequenceFile=path).get_sequence()
            except Exception:
                got3 = ERR
            rep.cnt("reused_parser_and_frontend_parses")
            if want != UNSPEC and (got2 != got or (got3 != got and not (got == "" or got3 == ERR and got == ""))):
                rep.viol("parse_outcome", "a fresh parser gives %s, a re-used parser %s and SequenceParameters(sequenceFile=) %s for the same file %r" % (
                    "an error" if got == ERR else repr(got[:60]), "an error" if got2 == ERR else repr(got2[:60]),
                    "an error" if got3 == ERR else repr(got3[:60]), content[:200]), sig={"kind": "reused_parser"})
        prev_size, prev_ok = size, (got != ERR)
        if want == UNSPEC:
            rep.cnt("unspecified_not_judged")
            continue
        rep.distinct(content)
        if ">" == ch or (ch or "").startswith(">"):
            rep.cnt("second_header_cases")
        if ch == "*":
            rep.cnt("star_cases")
        if kind == "clean":
            if want != seq:
                rep.inconclusive("layout generator/model disagreement on a clean layout: %r" % (info,))
                continue
            rep.cnt("clean_parsed")
        elif want == ERR:
            rep.cnt("corruptions_rejected")
        else:
            rep.cnt("corruptions_still_valid")
        if got != want:
            rep.viol("parse_outcome", "%s %r at %r of a layout %r: parser gave %s, model gives %s; file content %r" % (
                kind, ch, i, info, "an error" if got == ERR else repr(got[:80]), "an error" if want == ERR else repr(want[:80]), content[:300]),
                sig={"want_error": want == ERR, "got_error": got == ERR, "char": ch, "kind": kind})
            continue
        if want != ERR and (kind == "clean" or rng.random() < 0.1):
            try:
                fobj = S["SP"](sequenceFile=path)
                b1 = battery(fobj, len(want))
                fseq = fobj.get_sequence()
            except Exception as e:
                rep.viol("file_object", "SequenceParameters(sequenceFile=...) failed with %s: %s on content %r" % (type(e).__name__, e, content[:200]))
                continue
            b2 = battery(S["SP"](want), len(want))
            rep.cnt("object_battery_compared")
            if fseq != want or not all(same(x, y) for x, y in zip(b1, b2)):
                rep.viol("file_object", "object built from the file differs from the object built from %r (sequence %r)" % (want[:80], fseq[:80]))
            elif kind == "clean":
                # a second object built from the same file is a new, pristine object: it must not see what was
                # done to the first one
                sty = [k + 1 for k, c in enumerate(want) if c in "STY"]
                fobj.set_phosphosites(sty[:3])
                pal = {a: "teal" for a in M.AA}
                fobj.set_HTMLColorResiduePalette(pal)
                second = S["SP"](sequenceFile=path)
                fresh = S["SP"](want)
                rep.cnt("second_file_object_checked")
                a = (second.get_phosphosites(), second.get_phosphosequence(), second.get_HTMLColorString(), second.get_kappa_after_phosphorylation())
                b = (fresh.get_phosphosites(), fresh.get_phosphosequence(), fresh.get_HTMLColorString(), fresh.get_kappa_after_phosphorylation())
                if not all(same(x, y) for x, y in zip(a, b)):
                    rep.viol("file_objects_share_state", "a second object built from the same file answers %r, a fresh object built from the parsed string %r "
                             "(the first file-built object had phosphosites %r and a teal palette set)" % (a[:2], b[:2], sty[:3]))
    if rep.evaluations % 40 == 1:
        rep.sample({"layout": info, "file_head": text[:160], "parsed": seq[:60]})
