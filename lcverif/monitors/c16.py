"""C16 - phosphosites are exactly the requested in-range S/T/Y; derived values follow.

Oracle: a sequential model of the site list run beside the live object (ordered,
no repeats; set(x) with an int / list / tuple of ints appends each position p
with 1 <= p <= N holding S/T/Y that is not yet present, ignores everything else
without exception; clear empties).  After every operation the observable state
(get_phosphosites, sequence, all S/T/Y sites, phosphosequence) must equal the
model's, kappa-after-phosphorylation must equal kappa of a fresh object built
from the phosphosequence, and the full distribution must have 2^k entries in
binary counting order whose six numbers equal those of fresh objects of the
correspondingly substituted sequences.  Other read-only queries are interleaved
(also before the derived ones) so stale caches are seen."""
import itertools

from .. import gen
from .. import refmodel as M

ID = "C16"
LEVEL = "exploration"
TECHNIQUE = "runtime monitoring: sequential reference model of the phosphosite list run beside the live object + fresh-object differential for derived values"
RULE = ("random sequences rich / poor in S,T,Y (none, all, last residue S/T/Y, ...) x operation words of length 1-12 over "
        "{set(int), set(list), set(tuple), clear, interleaved read-only queries} with positions from {0,-1,-N,-N-1,1,N,"
        "N+1,N+50, interior, duplicates, numpy ints}; distribution checked when k <= 6; distinct = distinct "
        "(sequence, operation word); non-trivial = word that sets at least one valid site")
RULE += ("; added after the mutation rounds: length 6-9 S/T/Y-rich sequences; 130 ignored positions on one object before the ordinary operations; the first cases of every shard are judged again at its end")
RULE += ("; round 5: distributions over 7, 9, 10 (thorough up to 11) sites")
RULE += ("; round 8: position lists of one 0/1 entry per residue; positions beyond 64 bits")
RULE += ("; round 9: shuffled copies of objects with sites (carry none, setting theirs leaves the parent alone); later requests naming all held sites in another order")
RULE += ("; round 10: after a 7-9 site distribution: the site list, then clear + the same sites in the opposite order + the distribution again; a second front-end handle on an object with sites")
EXHAUSTIVE = {"quick": False, "thorough": False}
ASSUMPTIONS = [
    "warning filters that escalate warnings to errors are not part of the driven environment (a library may legitimately warn)",
    "positions are 1-based; 'ignored' means no exception and no change of the list",
    "binary counting order: itertools.product('01') over the sites in first-set order, first-set site most significant",
    "derived values agree with fresh objects to 1e-9 relative (same code path, normally bitwise)",
    "non-integer positions (floats, strings, None) are outside the quantifier (arbitrary integer positions) and not driven",
]
REQUIRED = {"all": ["set_calls", "clear_calls", "positions_zero_or_negative", "positions_beyond_end", "positions_non_sty",
                    "positions_duplicate", "distribution_checked", "distributions_over_9_or_more_sites", "position_lists_that_look_like_a_mask", "positions_beyond_64_bits", "shuffled_copies_of_objects_with_sites", "requests_naming_all_held_sites_in_another_order", "second_handles_on_objects_with_sites", "distributions_after_resetting_the_same_sites_in_another_order", "kappa_after_checked", "kappa_after_with_cached_dmax",
                    "clear_then_phosphosequence", "out_of_order_sites", "long_ignored_position_histories",
                    "single_requests_with_dozens_of_ignored_positions_before_valid_ones", "equal_sized_site_sets_one_after_another"]}
NWORDS = {"quick": 400, "thorough": 5000}


def cases(tier, seed):
    rng = gen.sub_rng(seed, ID)
    fixed = ["MDVFMKGLSKAKEGVVAAAEKTKQGVAEAAGKTKEGVLYVGSKTKEGVVHGVATVAEKTKEQVTNVGGAVVTGVTAVAQKTVEGAGSIAAATGFVKKDQLGKNEEGAPQEGILEDMPVDPDNEAYEMPSEEGYQDYEPEA",
             "SGGTY", "KKKYKKK", "S", "STYSTYSTY", "GGGGKKEE", "EKEKEKGGS", "YGGKKEEGGT", "GGSSSSSG", "KKKKKGGGGGGGGGGGGGGGGGGGGS",
             "SSGGGGG", "GSSSGGGK", "TTTGGGGE", "KGGGSSS"]
    # distributions over 7 .. 11 sites (128 .. 2048 phosphostates) on short chains
    for k in ([7, 9, 10] if tier == "quick" else [7, 8, 9, 9, 10, 10, 11]):
        n = k + rng.randint(3, 6)
        letters = ["S", "T", "Y"] * 4
        body = [rng.choice(letters) for _ in range(k)] + [rng.choice("KEGDR") for _ in range(n - k)]
        rng.shuffle(body)
        yield {"s": "".join(body), "o": rng.randrange(1 << 30), "bigdist": k}
    for i in range(NWORDS[tier]):
        if i < len(fixed):
            s = fixed[i]
        elif i % 4 == 0:
            # length 6-9 over a small alphabet: phosphostates that are (nearly) maximally segregated live here
            s = "".join(rng.choice("GGSSTKE") for _ in range(rng.randint(6, 9)))
        else:
            s = gen.rand_seq(rng, rng.choice(["sty_rich", "sty_rich", "idp", "polyampholyte", "uniform", "short"]), hi=60)
            if rng.random() < 0.3:
                s = s + rng.choice("STY")
        yield {"s": s, "o": rng.randrange(1 << 30)}


def check_child(rep, obj, seq, model, rng):
    """A shuffled copy is a new object: it carries no phosphosites, and giving it some leaves the parent's list alone."""
    child = obj.get_shuffled_sequence()
    cs = child.get_sequence()
    rep.cnt("shuffled_copies_of_objects_with_sites")
    got = list(child.get_phosphosites())
    if got:
        rep.viol("site_list", "a shuffled copy %s of %s (sites %r) reports phosphosites %r nobody set on it" % (cs, seq, model, got), sig={"child": True})
        return False
    sty = [i + 1 for i, c in enumerate(cs) if c in "STY"]
    if sty:
        child.set_phosphosites([sty[-1]])
        if list(child.get_phosphosites()) != [sty[-1]] or list(obj.get_phosphosites()) != list(model):
            rep.viol("site_list", "after set_phosphosites([%d]) on a shuffled copy the copy lists %r and the parent %r (model %r)" % (
                sty[-1], child.get_phosphosites(), obj.get_phosphosites(), model), sig={"child": True})
            return False
    return True


def pick_positions(rng, seq, np):
    N = len(seq)
    sty = [i + 1 for i, c in enumerate(seq) if c in "STY"]
    pool = [0, -1, -N, -N - 1, 1, N, N + 1, N + 50, -3, 2 * N]
    out = []
    for _ in range(rng.randint(1, 5)):
        r = rng.random()
        if r < 0.45 and sty:
            out.append(rng.choice(sty))
        elif r < 0.7:
            out.append(rng.choice(pool))
        else:
            out.append(rng.randint(1, N))
    if rng.random() < 0.3 and out:
        out.append(out[0])
    if rng.random() < 0.12:
        # exactly one entry per residue, all 0 or 1: still a list of POSITIONS (0 is no position, 1 is the first residue)
        out = [rng.choice([0, 1]) for _ in range(N)]
        _odd[0] += 1
    if rng.random() < 0.15:
        out = [np.int64(x) for x in out]
    elif rng.random() < 0.1:
        # positions far outside any machine integer are outside the sequence like any other
        out.insert(rng.randint(0, len(out)), rng.choice([2 ** 63, 2 ** 64, 10 ** 30, -2 ** 70, 2 ** 63 - 1, -2 ** 63 - 1]))
        _odd[1] += 1
    return out


_odd = [0, 0]


def judge(case, rep, S):
    np = S["np"]
    SP = S["SP"]
    seq = case["s"]
    N = len(seq)
    rng = gen.sub_rng(case["o"], ID)
    for k_, nm_ in enumerate(("position_lists_that_look_like_a_mask", "positions_beyond_64_bits")):
        if rep.counters.get(nm_, 0) < _odd[k_]:
            rep.cnt(nm_, _odd[k_] - rep.counters.get(nm_, 0))
    obj = SP(seq)
    model = []
    word = []
    any_valid = False
    cleared_since_pseq = False
    pseq_called = False
    all_sty = [i + 1 for i, c in enumerate(seq) if c in "STY"]
    if case.get("bigdist"):
        k = case["bigdist"]
        sites = all_sty[:k]
        order = list(sites)
        rng.shuffle(order)
        obj.set_phosphosites(order)
        model = list(obj.get_phosphosites())
        if sorted(model) != sorted(sites):
            rep.viol("site_list", "after set_phosphosites(%r) on %s get_phosphosites() = %r" % (order, seq, model))
            return
        dist = obj.get_full_phosphostatus_kappa_distribution()
        rep.cnt("distributions_over_7_or_more_sites")
        if k >= 9:
            rep.cnt("distributions_over_9_or_more_sites")
        ctx = "(%s, %d sites %r)" % (seq, k, model)
        if len(dist) != 2 ** k:
            rep.viol("distribution_size", "distribution has %d entries for %d sites %s" % (len(dist), k, ctx))
            return
        fresh = {}
        for entry, status in zip(dist, itertools.product("01", repeat=k)):
            if tuple(entry[-1]) != status:
                rep.viol("distribution_order", "status tuple %r where binary counting gives %r %s" % (entry[-1], status, ctx))
                return
            sub = list(seq)
            for bit, p_ in zip(status, model):
                if bit == "1":
                    sub[p_ - 1] = "E"
            sub = "".join(sub)
            if sub not in fresh:
                f = SP(sub)
                fresh[sub] = (f.get_kappa(), f.get_fraction_positive(), f.get_fraction_negative(), f.get_FCR(), f.get_NCPR(), f.get_mean_hydropathy())
            want = fresh[sub]
            if len(entry) != 7 or not all(M.close(a, b) for a, b in zip(entry[:6], want)):
                rep.viol("distribution_values", "entry %r for status %r differs from the fresh object of %s: %r %s" % (entry, status, sub, want, ctx))
                return
        if list(obj.get_phosphosites()) != model:
            rep.viol("site_list", "get_phosphosites() changed from %r to %r after the distribution query %s" % (model, obj.get_phosphosites(), ctx),
                     sig={"after_distribution": True})
            return
        if k <= 9:
            # the same sites set in the opposite order after a clear: the columns of the distribution follow the new order
            obj.clear_phosphosites()
            obj.set_phosphosites(list(reversed(model)))
            model2 = list(obj.get_phosphosites())
            dist2 = obj.get_full_phosphostatus_kappa_distribution()
            rep.cnt("distributions_after_resetting_the_same_sites_in_another_order")
            if model2 != list(reversed(model)) or len(dist2) != 2 ** k:
                rep.viol("site_list", "clear + set_phosphosites(%r) gives sites %r and %d states" % (list(reversed(model)), model2, len(dist2)))
                return
            for entry, status in zip(dist2, itertools.product("01", repeat=k)):
                sub = list(seq)
                for bit, p_ in zip(status, model2):
                    if bit == "1":
                        sub[p_ - 1] = "E"
                want = fresh.get("".join(sub))
                if want is None or tuple(entry[-1]) != status or not all(M.close(a, b) for a, b in zip(entry[:6], want)):
                    rep.viol("distribution_values", "after clearing and setting the same sites in the opposite order, entry %r for status %r is not that of %s (%r) %s" % (
                        entry, status, "".join(sub), want, ctx), sig={"reordered": True})
                    return
        return
    if case["o"] % 10 == 0:
        # more than a hundred positions that must be ignored, on this one object, before the ordinary operations
        rep.cnt("long_ignored_position_histories")
        junk = [rng.choice([0, -1, -N, N + 1, N + 7, 3 * N, -2]) for _ in range(130)]
        try:
            for chunk in range(0, 130, 13):
                obj.set_phosphosites(junk[chunk:chunk + 13])
        except Exception as e:
            rep.viol("set_raised", "set_phosphosites(out-of-range positions) raised %s: %s on %s after many ignored positions" % (type(e).__name__, e, seq),
                     sig={"exception": type(e).__name__})
            return
        word.append(("set", "list", "130 out-of-range positions"))
        if not check_state(rep, S, obj, seq, model, all_sty, word, rng):
            return
    r3 = gen.sub_rng(case["o"] ^ 0x3C3C, ID)          # a generator of its own: the streams of the ordinary steps stay what they were
    if case["o"] % 10 == 1 and all_sty:
        # ONE request that starts with dozens of positions to be ignored and names real sites only afterwards / in between
        rep.cnt("single_requests_with_dozens_of_ignored_positions_before_valid_ones")
        junk = [r3.choice([0, -1, -N, N + 1, N + 7, 3 * N, -2]) for _ in range(r3.choice([21, 25, 40, 64, 100]))]
        good = r3.sample(all_sty, min(len(all_sty), r3.randint(1, 4)))
        pos = junk + good
        if r3.random() < 0.5:
            pos.insert(r3.randrange(len(junk)), r3.choice(all_sty))
        try:
            obj.set_phosphosites(list(pos))
        except Exception as e:
            rep.viol("set_raised", "set_phosphosites(%r) raised %s: %s on %s" % (pos, type(e).__name__, e, seq), sig={"exception": type(e).__name__})
            return
        for p_ in pos:
            if 1 <= p_ <= N and seq[p_ - 1] in "STY" and p_ not in model:
                model.append(p_)
        word.append(("set", "list", "%d out-of-range positions, then %r" % (len(junk), good)))
        if not check_state(rep, S, obj, seq, model, all_sty, word, rng) or not kappa_after_now(rep, S, obj, seq, model, word):
            return
    if case["o"] % 10 == 2 and len(all_sty) >= 2:
        # sites A, the phospho-queries, clear, then DIFFERENT sites B of the same number: nothing of A may survive in the answers
        k_ = r3.randint(1, max(1, len(all_sty) // 2))
        for _round in range(3):
            A = r3.sample(all_sty, k_)
            obj.set_phosphosites(A)
            word.append(("set", "list", A))
            if not kappa_after_now(rep, S, obj, seq, A, word):
                return
            obj.get_phosphosequence()
            if k_ <= 4:
                obj.get_full_phosphostatus_kappa_distribution()
            obj.clear_phosphosites()
            word.append(("clear",))
        rep.cnt("equal_sized_site_sets_one_after_another")
        if not check_state(rep, S, obj, seq, model, all_sty, word, rng):
            return
    for step in range(rng.randint(1, 12)):
        r = rng.random()
        if r < 0.55:
            pos = pick_positions(rng, seq, np)
            if len(model) >= 2 and rng.random() < 0.2:
                # a later request that names every site held so far, in another order (possibly with new ones): first-set order stays
                pos = list(reversed(model)) if rng.random() < 0.5 else rng.sample(model, len(model))
                if all_sty and rng.random() < 0.4:
                    pos.insert(rng.randint(0, len(pos)), rng.choice(all_sty))
                rep.cnt("requests_naming_all_held_sites_in_another_order")
            style = rng.choice(["list", "tuple", "each_int"])
            word.append(("set", style, [int(p) for p in pos]))
            rep.cnt("set_calls")
            try:
                if style == "list":
                    obj.set_phosphosites(list(pos))
                elif style == "tuple":
                    obj.set_phosphosites(tuple(pos))
                else:
                    for p in pos:
                        obj.set_phosphosites(int(p))
            except Exception as e:
                rep.viol("set_raised", "set_phosphosites(%r) raised %s: %s on %s (N=%d)" % (pos, type(e).__name__, e, seq, N),
                         sig={"exception": type(e).__name__})
                return
            for p in pos:
                p = int(p)
                if p <= 0:
                    rep.cnt("positions_zero_or_negative")
                elif p > N:
                    rep.cnt("positions_beyond_end")
                elif seq[p - 1] not in "STY":
                    rep.cnt("positions_non_sty")
                elif p in model:
                    rep.cnt("positions_duplicate")
                else:
                    if model and p < model[-1]:
                        rep.cnt("out_of_order_sites")
                    model.append(p)
                    any_valid = True
        elif r < 0.7:
            word.append(("clear",))
            rep.cnt("clear_calls")
            obj.clear_phosphosites()
            model = []
            if pseq_called:
                cleared_since_pseq = True
        else:
            q = rng.choice(["kappa", "deltaMax", "FCR", "delta", "dist", "pseq", "kafter"])
            word.append(("query", q))
            if q == "kappa":
                obj.get_kappa()
            elif q == "deltaMax":
                obj.get_deltaMax()
            elif q == "FCR":
                obj.get_FCR()
            elif q == "delta":
                obj.get_delta()
            elif q == "dist" and len(model) <= 5:
                obj.get_full_phosphostatus_kappa_distribution()
            elif q == "pseq":
                obj.get_phosphosequence()
                pseq_called = True
            elif q == "kafter":
                obj.get_kappa_after_phosphorylation()
        if not check_state(rep, S, obj, seq, model, all_sty, word, rng):
            return
        if cleared_since_pseq:
            rep.cnt("clear_then_phosphosequence")
            cleared_since_pseq = False
    if any_valid:
        rep.distinct((seq, repr(word)))
    if rep.evaluations % 60 == 1:
        rep.sample({"sequence": seq, "operations": word, "final_sites": model})


def kappa_after_now(rep, S, obj, seq, model, word):
    """kappa after phosphorylation and the phosphosequence against a fresh object - always, no random choice."""
    want_pseq = "".join("E" if (i + 1) in model else c for i, c in enumerate(seq))
    ctx = "after %r on %s" % (word[-6:], seq)
    if list(obj.get_phosphosites()) != list(model):
        rep.viol("site_list", "get_phosphosites()=%r, model says %r %s" % (obj.get_phosphosites(), model, ctx), sig={"deterministic_history": True})
        return False
    pseq = obj.get_phosphosequence()
    if pseq != want_pseq:
        rep.viol("phosphosequence", "get_phosphosequence()=%r but the sites %r give %r %s" % (pseq, model, want_pseq, ctx))
        return False
    ka = obj.get_kappa_after_phosphorylation()
    kf = S["SP"](want_pseq).get_kappa()
    rep.cnt("kappa_after_checked")
    if not M.close(ka, kf):
        rep.viol("kappa_after", "get_kappa_after_phosphorylation()=%r but kappa of %s is %r (sites %r) %s" % (ka, want_pseq, kf, model, ctx),
                 sig={"dmax_cached": False})
        return False
    return True


def check_state(rep, S, obj, seq, model, all_sty, word, rng):
    SP = S["SP"]
    ctx = "after %r on %s" % (word[-6:], seq)
    got = obj.get_phosphosites()
    if list(got) != list(model) or any(isinstance(x, bool) for x in got):
        rep.viol("site_list", "get_phosphosites()=%r, model (requested in-range S/T/Y, first-set order, no repeats) says %r %s" % (got, model, ctx),
                 sig={"got_has_nonpositive": any(int(x) <= 0 for x in got) if got else False})
        return False
    if obj.get_sequence() != seq:
        rep.viol("sequence_changed", "stored sequence became %r %s" % (obj.get_sequence(), ctx))
        return False
    if model and rng.random() < 0.15 and not check_child(rep, obj, seq, model, rng):
        return False
    if model and rng.random() < 0.1:
        h2 = SP(SeqObj=obj.SeqObj)                 # a second front-end handle on the same backend object
        rep.cnt("second_handles_on_objects_with_sites")
        if list(h2.get_phosphosites()) != list(model) or list(obj.get_phosphosites()) != list(model):
            rep.viol("site_list", "a second handle SequenceParameters(SeqObj=...) on an object with sites %r: handle lists %r, the object now %r" % (
                model, h2.get_phosphosites(), obj.get_phosphosites()), sig={"second_handle": True})
            return False
    if list(obj.get_all_phosphorylatable_sites()) != all_sty:
        rep.viol("all_sites", "get_all_phosphorylatable_sites()=%r, expected %r on %s" % (obj.get_all_phosphorylatable_sites(), all_sty, seq))
    want_pseq = "".join("E" if (i + 1) in model else c for i, c in enumerate(seq))
    pseq = obj.get_phosphosequence()
    if pseq != want_pseq:
        rep.viol("phosphosequence", "get_phosphosequence()=%r but the sites %r give %r %s" % (pseq, model, want_pseq, ctx))
        return False
    # kappa after phosphorylation == kappa of a fresh object of the phosphosequence
    if rng.random() < 0.6:
        cached = False
        if rng.random() < 0.5:
            obj.get_kappa()
            cached = True
            rep.cnt("kappa_after_with_cached_dmax")
        ka = obj.get_kappa_after_phosphorylation()
        kf = SP(want_pseq).get_kappa()
        rep.cnt("kappa_after_checked")
        if not M.close(ka, kf):
            rep.viol("kappa_after", "get_kappa_after_phosphorylation()=%r but kappa of %s is %r (%s, delta-max %s) %s" % (
                ka, want_pseq, kf, "sites %r" % model, "cached before" if cached else "not cached", ctx), sig={"dmax_cached": cached})
    # full distribution
    k = len(model)
    if k <= 6 and rng.random() < (0.5 if k <= 3 else 0.2):
        dist = obj.get_full_phosphostatus_kappa_distribution()
        rep.cnt("distribution_checked")
        if len(dist) != 2 ** k:
            rep.viol("distribution_size", "distribution has %d entries for %d sites %s" % (len(dist), k, ctx))
            return False
        for entry, status in zip(dist, itertools.product("01", repeat=k)):
            if tuple(entry[-1]) != status:
                rep.viol("distribution_order", "status tuple %r where binary counting gives %r %s" % (entry[-1], status, ctx))
                return False
            sub = list(seq)
            for bit, p in zip(status, model):
                if bit == "1":
                    sub[p - 1] = "E"
            f = SP("".join(sub))
            want = (f.get_kappa(), f.get_fraction_positive(), f.get_fraction_negative(), f.get_FCR(), f.get_NCPR(), f.get_mean_hydropathy())
            if len(entry) != 7 or not all(M.close(a, b) for a, b in zip(entry[:6], want)):
                rep.viol("distribution_values", "entry %r for status %r differs from the fresh object of %s: %r %s" % (
                    entry, status, "".join(sub), want, ctx))
                return False
        # the query must not have reordered / altered the stored list
        if list(obj.get_phosphosites()) != list(model):
            rep.viol("site_list", "get_phosphosites() changed to %r after the distribution query (model %r) %s" % (obj.get_phosphosites(), model, ctx),
                     sig={"after_distribution": True})
            return False
    return True
