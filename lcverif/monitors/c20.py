"""C20 - HTML rendering shows each residue once, in order, in its palette colour.

Oracle: own tokeniser of the HTML string (prefix, per residue: a space opening
every block of 10, a line break opening every block of 50, one span with colour
and letter, suffix) checked against a palette model run beside the objects:
starts at the documented default; set(d) is accepted iff d is a dict giving each
of the 20 amino acids one of the 17 colour names; a rejected dict must raise and
leave the palette (as rendered) unchanged; palettes of other live objects never
change."""
import re

from .. import gen
from .. import refmodel as M
from .. import salt as SALT

ID = "C20"
LEVEL = "exploration"
TECHNIQUE = "runtime monitoring: HTML token parser + sequential palette model run beside several live objects over update histories"
RULE = ("sequences of length 1, 9, 10, 11, 49, 50, 51, 99, 100, 101 and random up to 400, containing all residues, x "
        "histories of 1-8 palette updates (valid random, missing each key, invalid colour at first/middle/last key, "
        "non-string values, non-dict, padded foreign keys) over 1-3 live objects, rendering after every update; "
        "distinct = distinct (sequence, update history); non-trivial = history with at least one update")
RULE += ("; added after the mutation rounds: histories of 25-45 updates; the caller editing its dictionary after acceptance; empty mappings; updates through a second handle on the same backend object; the first cases of every shard are judged again at its end")
RULE += ("; round 5: the object's own (or another object's) live palette dictionary handed back, with or without an edited entry")
RULE += ("; round 8: palette updates on shuffled copies (nothing / everything / all but one position frozen) and their parents")
RULE += ("; round 9: colour names with trailing NULs / blanks / other case; multi-letter keys containing the missing residue; a dictionary equal to the stock palette")
RULE += ("; round 10: lower-case twins of residue keys; the dictionary just accepted, edited (validly or not) and handed to another object")
EXHAUSTIVE = {"quick": False, "thorough": False}
ASSUMPTIONS = [
    "warning filters that escalate warnings to errors, and palette values that are str subclasses with their own __str__ (e.g. str-mixin Enum members), are not driven",
    "documented default palette: D,E red; K,R blue; P fuchsia; F,W,Y orange; G,H,N,Q,S,T green; A,C,I,L,M,V black",
    "colour names differing only in letter case are not driven (documentation and code disagree; statement silent)",
    "a dict with all 20 keys plus extra foreign keys is driven only when it is otherwise valid, and then only the "
    "rendering (not acceptance) is judged",
]
REQUIRED = {"all": ["salted_objects", "renders_checked", "valid_updates", "rejected_missing_key", "rejected_bad_colour", "rejected_non_dict",
                    "rejected_padded_missing_key", "multi_object_histories", "lengths_10k_plus_1", "render_after_reject", "rejected_empty_mapping",
                    "caller_edits_after_accept", "second_handle_updates", "long_update_histories", "live_palette_dictionaries_handed_back", "palette_updates_on_shuffled_copies", "stock_palette_updates", "same_dictionary_object_reused_for_another_object"]}
NHIST = {"quick": 1000, "thorough": 8000}
COLOURS = ['aqua', 'black', 'blue', 'fuchsia', 'gray', 'green', 'lime', 'maroon', 'navy', 'olive', 'orange', 'purple',
           'red', 'silver', 'teal', 'white', 'yellow']
DEFAULT = {}
for _a in "DE":
    DEFAULT[_a] = "red"
for _a in "KR":
    DEFAULT[_a] = "blue"
DEFAULT["P"] = "fuchsia"
for _a in "FWY":
    DEFAULT[_a] = "orange"
for _a in "GHNQST":
    DEFAULT[_a] = "green"
for _a in "ACILMV":
    DEFAULT[_a] = "black"
SPAN = re.compile(r'<span style="color:\s*([^";]*);?">(.)</span>')
FRAME = re.compile(r'^\s*<p[^>]*>(.*)</p>\s*$', re.S)
PREFIX = '<p style="font-family:Courier;">'
SUFFIX = "</p>"
FIXED_LENGTHS = [1, 2, 9, 10, 11, 21, 49, 50, 51, 61, 99, 100, 101, 151, 200, 201]


def cases(tier, seed):
    rng = gen.sub_rng(seed, ID)
    for i in range(NHIST[tier]):
        if i < 3 * len(FIXED_LENGTHS):
            n = FIXED_LENGTHS[i % len(FIXED_LENGTHS)]
            s = "".join(rng.choice(M.AA) for _ in range(n))
        else:
            s = gen.rand_seq(rng, hi=400 if i % 7 == 0 else 120)
        yield {"s": s, "o": rng.randrange(1 << 30)}


def check_render(rep, html, seq, palette, ctx):
    rep.cnt("renders_checked")
    if len(seq) % 10 == 1:
        rep.cnt("lengths_10k_plus_1")
    if not isinstance(html, str):
        rep.viol("html_frame", "rendering of %s is not a string: %r (%s)" % (seq[:60], html, ctx))
        return
    fm = FRAME.match(html)
    body = fm.group(1) if fm else html          # an enclosing paragraph element, whatever its attributes, is markup
    pos = 0
    for i, res in enumerate(seq):
        if i % 50 == 0:
            # a block of 50 also opens a block of 10: a space and a line break, in either order (the statement
            # does not fix their order)
            if body[pos:pos + 5] in (" <br>", "<br> "):
                pos += 5
            else:
                facet = "block_of_50" if " " in body[pos:pos + 5] else "block_of_10"
                rep.viol(facet, "no space + line break opening the block at residue %d of %s: ...%r (%s)" % (i + 1, seq[:60], body[pos:pos + 40], ctx),
                         sig={"i_mod_50": 0})
                return
        elif i % 10 == 0:
            if body[pos:pos + 1] != " ":
                rep.viol("block_of_10", "no space opening the block at residue %d of %s: ...%r (%s)" % (i + 1, seq[:60], body[pos:pos + 40], ctx),
                         sig={"i_mod_50": i % 50})
                return
            pos += 1
        m = SPAN.match(body, pos)
        if not m:
            rep.viol("span", "no span for residue %d (%s) of %s: ...%r (%s)" % (i + 1, res, seq[:60], body[pos:pos + 60], ctx),
                     sig={"at_end": i == len(seq) - 1})
            return
        colour, letter = m.group(1), m.group(2)
        if letter != res:
            rep.viol("residue_order", "span %d shows %r, expected %r in %s (%s)" % (i + 1, letter, res, seq[:60], ctx))
            return
        if colour != palette[res]:
            rep.viol("colour", "residue %s rendered %r but the current palette says %r (%s; %s)" % (res, colour, palette[res], seq[:60], ctx),
                     sig={"after_reject": "after rejected" in ctx})
            return
        pos = m.end()
    if pos != len(body):
        rep.viol("trailing_markup", "unexpected markup after the last residue of %s: %r (%s)" % (seq[:60], body[pos:pos + 80], ctx))
        return
    stripped = re.sub(r"<[^>]*>", "", html).replace(" ", "")
    if stripped != seq:
        rep.viol("strip_markup", "stripping the markup gives %r, not %r" % (stripped[:80], seq[:80]))


def judge(case, rep, S):
    SP = S["SP"]
    rng = gen.sub_rng(case["o"], ID)
    seqs = [case["s"]]
    nobj = rng.choice([1, 1, 2, 3])
    for _ in range(nobj - 1):
        seqs.append(gen.rand_seq(rng, hi=60) + M.AA)
    objs = [SP(s) for s in seqs]
    models = [dict(DEFAULT) for _ in objs]
    if nobj > 1:
        rep.cnt("multi_object_histories")
    if rng.random() < 0.2:
        SALT.salt(S, objs[0], seqs[0], rng, rep, cheap=len(seqs[0]) > 100)
    for o, s, m in zip(objs, seqs, models):
        check_render(rep, o.get_HTMLColorString(), s, m, "fresh object")
    hist = []
    nsteps = rng.randint(1, 8)
    if case["o"] % 12 == 0:
        nsteps = rng.randint(25, 45)             # dozens of updates on the same objects
        rep.cnt("long_update_histories")
    for step in range(nsteps):
        k = rng.randrange(nobj)
        obj, model = objs[k], models[k]
        kind = rng.choice(["valid", "valid", "valid", "missing", "bad_colour", "bad_value_type", "non_dict", "padded_missing",
                           "valid_padded", "empty", "valid_then_caller_edits", "live_map_handed_back", "stock_palette"])
        d = {a: rng.choice(COLOURS) for a in M.AA}
        order = list(M.AA)
        rng.shuffle(order)
        d = {a: d[a] for a in order}
        expect_ok = True
        if kind == "missing":
            del d[rng.choice(list(M.AA))]
            expect_ok = False
        elif kind == "bad_colour":
            where = rng.choice(["first", "last", "any"])
            key = {"first": "A", "last": "Y", "any": rng.choice(list(M.AA))}[where]
            d[key] = rng.choice(["pink", "brown", "cyan", "magenta", "#ff0000", "", "grey", "redd", "dark blue", "violet", "red\x00", "lime\x00\x00",
                                 "red ", " red", "red\n", "\x00red", "Red", "RED"])
            expect_ok = False
        elif kind == "bad_value_type":
            d[rng.choice(list(M.AA))] = rng.choice([None, 3, 1.5, ("red",), ["blue"]])
            expect_ok = False
        elif kind == "non_dict":
            d = rng.choice([list(d.items()), "red", 5, tuple(d), set(d)])   # None is truthy-less but `in` fails -> raises
            expect_ok = False
        elif kind == "padded_missing":
            gone = rng.choice(list(M.AA))
            del d[gone]
            for extra in rng.sample([gone.lower(), "X", "B", "ALA", "*", 1, gone + rng.choice(list(M.AA)), rng.choice(list(M.AA)) + gone, gone * 2], rng.randint(1, 3)):
                d[extra] = rng.choice(COLOURS)
            expect_ok = False
        elif kind == "valid_padded":
            d["X"] = "red"
            if rng.random() < 0.5:
                # a lower-case twin of a residue key is an extra key: the residue's colour is the one under its own letter
                a_ = rng.choice(list(M.AA))
                d[a_.lower()] = rng.choice([c for c in COLOURS if c != d[a_]])
            if rng.random() < 0.6:
                # entries for keys that are not amino acids take no part: whatever their values are
                d[rng.choice(["X", "B", "name", "*"])] = rng.choice(["pink", "#aa00aa", "my scheme", None, 3])
        elif kind == "stock_palette":
            # a dictionary equal to the palette every new object starts with is a palette like any other
            d = dict(DEFAULT)
            rep.cnt("stock_palette_updates")
        elif kind == "live_map_handed_back":
            # there is no getter for the palette: users read the backend attribute, perhaps change an entry, and hand the very
            # same dictionary back - to the object it came from or to another one
            src = rng.randrange(nobj)
            d = objs[src].SeqObj.aminoAcidColorMap
            if not isinstance(d, dict) or set(d) != set(M.AA):
                rep.viol("palette_state", "the backend palette attribute is %r" % (d,))
                return
            if rng.random() < 0.6:
                a_ = rng.choice(list(M.AA))
                d[a_] = rng.choice(COLOURS)
                models[src][a_] = d[a_]
            rep.cnt("live_palette_dictionaries_handed_back")
        elif kind == "empty":
            import collections
            d = rng.choice([{}, collections.OrderedDict()])
            expect_ok = False
        hist.append(kind)
        try:
            obj.set_HTMLColorResiduePalette(d)
            accepted = True
        except Exception:
            accepted = False
        if expect_ok and not accepted:
            rep.viol("valid_rejected", "a dictionary giving all 20 residues one of the 17 colours was rejected: %r" % (d,))
            continue
        if not expect_ok and accepted:
            rep.viol("invalid_accepted", "an invalid palette (%s) was accepted: %r" % (kind, d), sig={"kind": kind})
            # the palette is now unknown to the model: stop this history
            return
        if accepted:
            rep.cnt("valid_updates")
            for a in M.AA:
                model[a] = models[src][a] if kind == "live_map_handed_back" else d[a]
            if kind == "valid_then_caller_edits":
                # the dictionary belongs to the caller: editing it afterwards is not a palette update
                rep.cnt("caller_edits_after_accept")
                d[rng.choice(list(M.AA))] = "pink"
                del d[rng.choice([a for a in M.AA if a in d])]
                if nobj > 1:
                    # ... and giving the same (re-validated) object to another sequence object must not link the two
                    d2 = {a: rng.choice(COLOURS) for a in M.AA}
                    j = (k + 1) % nobj
                    objs[j].set_HTMLColorResiduePalette(d2)
                    for a in M.AA:
                        models[j][a] = d2[a]
                    d2[rng.choice(list(M.AA))] = "navy" if d2.get("A") != "navy" else "teal"
        else:
            rep.cnt({"missing": "rejected_missing_key", "bad_colour": "rejected_bad_colour", "bad_value_type": "rejected_bad_colour",
                     "non_dict": "rejected_non_dict", "padded_missing": "rejected_padded_missing_key",
                     "empty": "rejected_empty_mapping"}[kind])
            rep.cnt("render_after_reject")
        r3 = gen.sub_rng(case["o"] ^ (0x2020 + step), ID)          # own generator: the ordinary stream stays what it was
        if r3.random() < 0.3:
            # None and a call without the dictionary are not palettes either: refused, and the palette in force stays
            rep.cnt("none_or_missing_argument_requests")
            for form_ in ("None", "no argument", "colorDict=None"):
                try:
                    if form_ == "None":
                        obj.set_HTMLColorResiduePalette(None)
                    elif form_ == "no argument":
                        obj.set_HTMLColorResiduePalette()
                    else:
                        obj.set_HTMLColorResiduePalette(colorDict=None)
                except Exception:
                    rep.cnt("rejected_non_dict")
                else:
                    rep.viol("invalid_accepted", "set_HTMLColorResiduePalette(%s) was accepted (history %s)" % (form_, hist), sig={"kind": "none_or_no_argument"})
                    return
            hist.append("None / no argument")
        ctx = "after %s update #%d, history %s" % ("accepted" if accepted else "rejected", step + 1, hist)
        for o, s, m in zip(objs, seqs, models):
            check_render(rep, o.get_HTMLColorString(), s, m, ctx)
        if accepted and nobj > 1 and kind in ("valid", "valid_padded", "stock_palette") and rng.random() < 0.35:
            # the caller edits the dictionary just accepted and hands the SAME object to another sequence object
            j_ = (k + 1) % nobj
            a_ = rng.choice(list(M.AA))
            if rng.random() < 0.7:
                d[a_] = rng.choice([c for c in COLOURS if c != d.get(a_)])
                try:
                    objs[j_].set_HTMLColorResiduePalette(d)
                    for a2 in M.AA:
                        models[j_][a2] = d[a2]
                except Exception as e:
                    rep.viol("valid_rejected", "a valid dictionary (accepted by another object before, then edited) was rejected: %s: %s" % (type(e).__name__, e))
                    return
            else:
                d[a_] = "pink"
                try:
                    objs[j_].set_HTMLColorResiduePalette(d)
                except Exception:
                    rep.cnt("rejected_bad_colour")
                else:
                    rep.viol("invalid_accepted", "a dictionary that another object had accepted and that was then given the colour 'pink' for %s was accepted" % a_, sig={"kind": "reused_object"})
                    return
            rep.cnt("same_dictionary_object_reused_for_another_object")
            for o, s, m in zip(objs, seqs, models):
                check_render(rep, o.get_HTMLColorString(), s, m, ctx + " + the same dictionary object, edited, given to another object")
        if rng.random() < 0.12:
            # a shuffled copy (nothing, something or everything frozen) is another object: colouring it does not colour its parent
            N_ = len(seqs[k])
            fz = rng.choice([[], list(range(N_)), list(range(N_ - 1)), list(range(1, N_)), list(range(0, N_, 2))])
            child = objs[k].get_shuffled_sequence(fz)
            d4 = {a: rng.choice(COLOURS) for a in M.AA}
            child.set_HTMLColorResiduePalette(d4)
            rep.cnt("palette_updates_on_shuffled_copies")
            check_render(rep, child.get_HTMLColorString(), child.get_sequence(), d4, ctx + " + update on a shuffled copy (copy itself)")
            check_render(rep, objs[k].get_HTMLColorString(), seqs[k], models[k], ctx + " + update on a shuffled copy (frozen %d of %d positions) - the parent" % (len(fz), N_))
        if rng.random() < 0.15:
            # a second front-end handle on the same backend object sees (and sets) the same palette
            h2 = SP(SeqObj=objs[k].SeqObj)
            d3 = {a: rng.choice(COLOURS) for a in M.AA}
            h2.set_HTMLColorResiduePalette(d3)
            for a in M.AA:
                models[k][a] = d3[a]
            rep.cnt("second_handle_updates")
            check_render(rep, objs[k].get_HTMLColorString(), seqs[k], models[k], ctx + " + update through a second handle on the same backend object")
    rep.distinct((case["s"], tuple(hist), case["o"]))
    if rep.evaluations % 50 == 1:
        rep.sample({"sequence": case["s"][:60], "history": hist, "html_head": objs[0].get_HTMLColorString()[:160]})
