"""C06 - Omega and kappa_X are kappa of the recoded sequence.

Oracle: cross-entry-point identities between observed results (Omega vs kappa of
the recoded word on a fresh object vs kappa_X of the PEDKR group; kappa vs
kappa_X(ED, KR); group swap, member order, duplicates, letter case, container
type, complement), an independent reference kappa of the recoded pattern, the
Omega string, and rejection of any group holding a non-amino-acid."""
from .. import gen
from .. import refmodel as M
from .. import salt as SALT

ID = "C06"
LEVEL = "exploration"
TECHNIQUE = "runtime monitoring: cross-entry-point relational oracle + independent reference kappa of the recoded pattern"
RULE = ("random sequences of all classes (quick <= 80, thorough <= 200 residues) x random one- and two-group partitions "
        "of the 20 amino acids (disjoint pairs; empty group; full alphabet; complement; mixed case; list/tuple/set/str "
        "containers; duplicates) + invalid groups; distinct = distinct (sequence, group1, group2); non-trivial = the "
        "kappa_X value is defined (not -1)")
RULE += ("; added after the mutation rounds: objects with phosphosites set; numpy.str_ group members; short linkers whose recoded ratio falls in (1,1.1); the first cases of every shard are judged again at its end")
RULE += ("; round 6: very unequal group sizes with >= 18 residues outside both groups; reference and swap law on the default groups; a group given as one string that reads as a word (CHARGED, ACIDIC, ...)")
RULE += ("; round 7: groups handed over as frozenset; invalid members inside tuple / set / frozenset groups")
RULE += ("; round 8: group members with a trailing / leading line break, blank or tab")
EXHAUSTIVE = {"quick": False, "thorough": False}
ASSUMPTIONS = [
    "identities between two library results are judged to 1e-9 relative (recoding swaps which class is called "
    "positive, so summation order may differ); pairs straddling the 1.1 clamp edge are skipped and counted",
    "overlapping groups are driven only for laws that do not involve swapping (statement: partitions); the swap law "
    "is judged only when both groups are non-empty (an empty second group makes the call a one-group call)",
    "a group member is 'a non-amino-acid' when it is not a one-letter code of the 20 standard residues in either case",
]
REQUIRED = {"all": ["salted_objects", "very_unequal_groups_with_many_outside", "omega_identity", "kappa_identity", "swap_pairs", "complement_pairs", "case_order_variants",
                    "invalid_groups_rejected", "nontrivial_two_group", "omega_sequence_checked", "objects_with_phosphosites", "string_groups_that_read_as_words"]}
NSEQ = {"quick": 350, "thorough": 3500}
HI = {"quick": 80, "thorough": 200}
BAD_MEMBERS = ["D\n", "E\n", "\nK", "k\n", "D ", " D", "D\r\n", "D\t", "B", "X", "Z", "J", "O", "U", "1", "0", "*", "-", " ", "", "DE", "KR", "ST", "ALA", "Ala", 3, None, 1.5,
               "Å", "Е", "e ", "+"]


def cases(tier, seed):
    rng = gen.sub_rng(seed, ID)
    fixed = ["MDVFMKGLSKAKEGVVAAAEKTKQGVAEAAGKTKEGVLYVGSKTKEGVVHGVATVAEKTKEQVTNVGGAVVTGVTAVAQKTVEGAGSIAAATGFVKKDQLGKNEEGAPQEGILEDMPVDPDNEAYEMPSEEGYQDYEPEA",
             "PPPPPEEEEEGGGGGKKKKKWWWWW", "W", "P", "GSGSGS", "EKEKEKEKPPPPGGGGWWHH", "EQQQGNQDR", "KQQQQQQQE", "GSGSGSGSGSGSGSGSGSGSGSKE",
             "QQQQQQQQQQQQQQQQQQQQQQQPQQQQQQQQQQQQQQQQQQQQQQQQQQQQQQQQQQQQQQQQQQQQQQQQQQQQQQQQQD",
             "GSQN" * 10 + "EKDRPEKDR" + "GSQNA" * 9, "EKDRP" * 17 + "GSQ" + "EDKR" + "ASTN" + "KD", "Q" * 30 + "PEK" + "S" * 30 + "DRP" + "N" * 28 + "KE", "EEQGGQQE", "PGGGGGGP", "DGSGSGSGR", "KKGGGGGK"]
    yield {"sweep": 330 if tier == "quick" else 1200, "s": "", "o": 5}
    for i in range(NSEQ[tier]):
        s = fixed[i] if i < len(fixed) else gen.rand_seq(rng, hi=HI[tier] if i % 3 == 0 else 40)
        if i >= len(fixed) and i % 6 == 0:
            # a short linker of 'other' residues with few P/E/D/K/R at the ends: the recoded ratio tends to fall in (1, 1.1)
            n = rng.randint(5, 9)
            core = "".join(rng.choice("QGSN") for _ in range(n))
            s = rng.choice("EDKRP") + core[: n // 2] + rng.choice(["", "", "P", "E"]) + core[n // 2:] + "".join(rng.choice("EDKRP") for _ in range(rng.randint(1, 2)))
        if i >= len(fixed) and i % 8 == 3:
            # one charge sign represented by 1-3 residues, the other by 8-25, and 18-40 (sometimes 8-17) residues outside both
            minor, major = rng.randint(1, 3), rng.randint(8, 25)
            z = rng.randint(18, 40) if rng.random() < 0.8 else rng.randint(8, 17)
            pat = [1] * minor + [-1] * major + [0] * z
            if rng.random() < 0.5:
                pat = [-q for q in pat]
            rng.shuffle(pat)
            s = gen.spell(rng, pat)
            yield {"s": s, "o": rng.randrange(1 << 30), "unequal": 1}
            continue
        yield {"s": s, "o": rng.randrange(1 << 30)}


def edge_pair(a, b):
    try:
        return (a == 1.0 and abs(b - 1.1) < 1e-6) or (b == 1.0 and abs(a - 1.1) < 1e-6)
    except Exception:
        return False


def agree(rep, a, b):
    if M.close(a, b):
        return True
    if edge_pair(a, b):
        rep.cnt("skipped_clamp_edge")
        return True
    return False


def variant(rng, grp):
    """Same set of letters: shuffled, random case, duplicates, random container."""
    g = list(grp)
    rng.shuffle(g)
    if g and rng.random() < 0.5:
        g.append(rng.choice(g))
    g = [c.lower() if rng.random() < 0.5 else c for c in g]
    kind = rng.random()
    if kind < 0.12 and g:
        import numpy
        return list(numpy.array(g))           # an ordinary list whose letters came out of a numpy array (numpy.str_ objects)
    if kind < 0.25:
        return tuple(g)
    if kind < 0.33:
        return frozenset(g)
    if kind < 0.4:
        return set(g)
    if kind < 0.55:
        return "".join(g)
    return g


def recode(seq, g1, g2=None):
    pat = []
    for c in seq:
        if c in g1:
            pat.append(-1)
        elif g2 is not None and c in g2:
            pat.append(1)
        elif g2 is not None:
            pat.append(0)
        else:
            pat.append(1)
    return tuple(pat)


def ref_agree(rep, got, pat):
    p, n, z = M.counts(pat)
    fam_vals, _ = M.dmax_family(p, n, z)
    m = fam_vals[0]
    if m == 0:
        return got == -1
    r = M.delta_float(pat) / m
    for fv in fam_vals:
        r2 = M.delta_float(pat) / fv
        if min(abs(r2 - 1.0), abs(r2 - 1.1)) < 1e-9:
            rep.cnt("skipped_clamp_edge_reference")
            return True
        want = 1.0 if 1.0 < r2 < 1.1 else r2
        if M.close(got, want):
            return True
    return False


def judge_sweep(case, rep, S):
    """Many distinct compositions in ONE process, then the identities on the early sequences again."""
    rng = gen.sub_rng(0, ID, "sweep")
    comps = gen.distinct_compositions(rng, case["sweep"], 8, 24)
    seqs = []
    for (p, n, z) in comps:
        pat = [1] * p + [-1] * n + [0] * z
        rng.shuffle(pat)
        s = gen.spell(rng, pat)
        seqs.append(s)
        S["SP"](s).get_kappa()
        rep.cnt("sweep_compositions")
    for s in seqs[:100]:
        o = S["SP"](s)
        k, kx = o.get_kappa(), o.get_kappa_X(["E", "D"], ["K", "R"])
        om, omx = o.get_Omega(), o.get_kappa_X(["P", "E", "D", "K", "R"])
        rep.cnt("kappa_identity")
        rep.cnt("omega_identity")
        if not (agree(rep, k, kx) and ref_agree(rep, k, M.pattern(s))):
            rep.viol("kappa_identity", "after %d other compositions in this process: kappa=%r, kappa_X([E,D],[K,R])=%r for %s" % (len(comps), k, kx, s))
            return
        if not agree(rep, om, omx):
            rep.viol("omega_identity", "after %d other compositions in this process: Omega=%r, kappa_X(PEDKR)=%r for %s" % (len(comps), om, omx, s))
            return


def judge(case, rep, S):
    if case.get("sweep"):
        return judge_sweep(case, rep, S)
    seq = case["s"]
    rng = gen.sub_rng(case["o"], ID)
    SP = S["SP"]
    obj = SP(seq)
    if rng.random() < 0.4:
        # phosphosites are bookkeeping for the phospho-queries only: they must not leak into Omega / kappa_X
        sty = [i + 1 for i, c in enumerate(seq) if c in "STY"]
        if sty:
            obj.set_phosphosites(rng.sample(sty, min(len(sty), rng.randint(1, 4))))
            rep.cnt("objects_with_phosphosites")
    if rng.random() < 0.25:
        SALT.salt(S, obj, seq, rng, rep, cheap=len(seq) > 100)
    # --- Omega identities
    om = obj.get_Omega()
    rec = "".join("E" if c in "PEDKR" else "K" for c in seq)
    k_rec = SP(rec).get_kappa()
    kx = obj.get_kappa_X(['P', 'E', 'D', 'K', 'R'])
    rep.cnt("omega_identity")
    if not (agree(rep, om, k_rec) and agree(rep, om, kx)):
        rep.viol("omega_identity", "Omega=%r, kappa(recoded)=%r, kappa_X(PEDKR)=%r for %s" % (om, k_rec, kx, seq))
    if not ref_agree(rep, om, recode(seq, "PEDKR")):
        rep.viol("omega_reference", "Omega=%r for %s disagrees with the reference kappa of the two-letter recoding" % (om, seq))
    # --- Omega string
    os_ = obj.get_Omega_sequence()
    rep.cnt("omega_sequence_checked")
    want = "".join("X" if c in "PEDKR" else "O" for c in seq)
    if os_ != want:
        rep.viol("omega_sequence", "get_Omega_sequence(%s)=%r, expected %r" % (seq, os_, want))
    # Omega must still be right after the string was asked for (and vice versa) on the same object
    om2 = obj.get_Omega()
    if not agree(rep, om, om2):
        rep.viol("omega_identity", "Omega changed from %r to %r after get_Omega_sequence on %s" % (om, om2, seq))
    # --- kappa identity
    k = obj.get_kappa()
    k2 = obj.get_kappa_X(['E', 'D'], ['K', 'R'])
    rep.cnt("kappa_identity")
    if not agree(rep, k, k2):
        rep.viol("kappa_identity", "kappa=%r but kappa_X([E,D],[K,R])=%r for %s" % (k, k2, seq))
    if case.get("unequal"):
        rep.cnt("very_unequal_groups_with_many_outside")
    if len(seq) <= 120 and not ref_agree(rep, k2, M.pattern(seq)):
        rep.viol("kappa_x_reference", "kappa_X([E,D],[K,R])=%r on %s disagrees with the reference kappa of its charge pattern" % (k2, seq))
    if len(seq) <= 120:
        v_sw = obj.get_kappa_X(['K', 'R'], ['E', 'D'])
        if not agree(rep, k2, v_sw):
            rep.viol("swap", "kappa_X([E,D],[K,R])=%r but swapped=%r for %s" % (k2, v_sw, seq))
    # --- random partitions
    letters = list(M.AA)
    for rnd in range(4):
        rng.shuffle(letters)
        a = rng.randint(0, 20) if rnd else rng.choice([0, 1, 20])
        b = rng.randint(0, 20 - a)
        g1, g2 = letters[:a], letters[a:a + b]
        comp = letters[a:]
        # two-group laws
        if g2 and g1:        # with an empty group the call is a one-group call by the API's own definition
            v12 = obj.get_kappa_X(list(g1), list(g2))
            v21 = obj.get_kappa_X(list(g2), list(g1))
            rep.cnt("swap_pairs")
            rep.distinct((seq, "".join(sorted(g1)), "".join(sorted(g2))))
            if v12 != -1:
                rep.cnt("nontrivial_two_group")
            if not agree(rep, v12, v21):
                rep.viol("swap", "kappa_X(%s,%s)=%r but swapped=%r for %s" % (g1, g2, v12, v21, seq))
            vv = obj.get_kappa_X(variant(rng, g1), variant(rng, g2))
            rep.cnt("case_order_variants")
            if not agree(rep, v12, vv):
                rep.viol("member_order_case", "kappa_X(%s,%s)=%r but an order/case/duplicate variant gives %r for %s" % (g1, g2, v12, vv, seq))
            if not ref_agree(rep, v12, recode(seq, set(g1), set(g2))):
                rep.viol("kappa_x_reference", "kappa_X(%s,%s)=%r on %s disagrees with the reference kappa of the three-class recoding" % (g1, g2, v12, seq))
        # one-group laws
        v1 = obj.get_kappa_X(list(g1))
        vc = obj.get_kappa_X(list(comp))
        rep.cnt("complement_pairs")
        rep.distinct((seq, "".join(sorted(g1)), None))
        if not agree(rep, v1, vc):
            rep.viol("complement", "kappa_X(%s)=%r but kappa_X(complement %s)=%r for %s" % (g1, v1, comp, vc, seq))
        v1v = obj.get_kappa_X(variant(rng, g1), None if rng.random() < 0.5 else [])
        rep.cnt("case_order_variants")
        if not agree(rep, v1, v1v):
            rep.viol("member_order_case", "kappa_X(%s)=%r but a variant gives %r for %s" % (g1, v1, v1v, seq))
        if not ref_agree(rep, v1, recode(seq, set(g1))):
            rep.viol("kappa_x_reference", "kappa_X(%s)=%r on %s disagrees with the reference kappa of the two-class recoding" % (g1, v1, seq))
    # --- a group given as ONE string is the set of its letters, also when the string reads as a word
    if rng.random() < 0.5:
        w = rng.choice(gen.GROUP_WORDS)
        w_arg = rng.choice([w, w.lower(), w.capitalize()])
        letters_w = sorted(set(w))
        shuffled = list(letters_w)
        rng.shuffle(shuffled)
        rep.cnt("string_groups_that_read_as_words")
        v_word = obj.get_kappa_X(w_arg)
        v_list = obj.get_kappa_X(shuffled)
        if not agree(rep, v_word, v_list):
            rep.viol("member_order_case", "kappa_X(%r)=%r but the same letters as a list %r give %r for %s" % (w_arg, v_word, shuffled, v_list, seq),
                     sig={"string_word": True})
        rest = [a for a in M.AA if a not in letters_w]
        if rest:
            g2w = rng.sample(rest, rng.randint(1, min(4, len(rest))))
            v2_word = obj.get_kappa_X(w_arg, g2w)
            v2_list = obj.get_kappa_X(shuffled, list(g2w))
            if not agree(rep, v2_word, v2_list):
                rep.viol("member_order_case", "kappa_X(%r,%r)=%r but with the first group as a list %r it is %r for %s" % (w_arg, g2w, v2_word, shuffled, v2_list, seq),
                         sig={"string_word": True})
    # --- invalid members are rejected (in group 1, in group 2, anywhere in the list)
    for rnd_ in range(3):
        bad = rng.choice(BAD_MEMBERS)
        good = rng.sample(list(M.AA), rng.randint(0, 5))
        if rnd_ == 0 and rng.random() < 0.5:
            good = list(M.AA)                  # every amino acid is there already; the bad member comes last (or first)
            rng.shuffle(good)
        grp = list(good)
        grp.insert(rng.choice([0, len(grp), len(grp), rng.randint(0, len(grp))]), bad)
        other = rng.sample([x for x in M.AA if x not in good] or list(M.AA), 3)
        form = rng.choice([list, list, tuple, set, frozenset])        # the container does not make a bad member good
        if form is not list:
            rep.cnt("invalid_groups_in_other_containers")
        for which in (1, 2):
            try:
                if which == 1:
                    r = obj.get_kappa_X(form(grp), other if rng.random() < 0.5 else None)
                else:
                    r = obj.get_kappa_X(other, form(grp))
            except Exception:
                rep.cnt("invalid_groups_rejected")
            else:
                rep.viol("invalid_group_accepted", "kappa_X accepted group %r (position %d) containing %r on %s and returned %r" % (
                    grp, which, bad, seq, r), sig={"member": repr(bad), "position": which})
    if rep.evaluations % 100 == 1:
        rep.sample({"sequence": seq, "Omega": om, "kappa_recoded": k_rec, "kappa": k, "Omega_sequence": os_})
