"""C12 - reduced alphabets implement the documented residue partitions.

Oracle: the documented partitions typed from the documentation (refmodel.ALPHABETS);
for each of the 12 sizes x 20 residues the image must be the representative of
the residue's documented group (one image per group, a member of that group,
exactly `size` images, returned alphabet = exactly the representatives);
homomorphism laws on random sequences; acceptance model for user alphabets
(several different ones on the same live object); rejection of other sizes."""
from .. import gen
from .. import refmodel as M
from .. import salt as SALT

ID = "C12"
LEVEL = "exploration"
TECHNIQUE = "runtime monitoring: documented-partition reference model + algebraic laws + acceptance model on observed reductions"
RULE = ("12 predefined sizes x 20 residues (exhaustive) through single-residue and all-residue sequences; all integer "
        "sizes 0..25; random sequences (quick 600, thorough 4000) for length / concatenation / idempotence laws over "
        "all sizes; random total, partial and invalid user alphabets (quick 800, thorough 6000), several per live "
        "object; distinct = distinct (size or user map, sequence); non-trivial = all")
RULE += ("; added after the mutation rounds: integer-valued spellings of the size ('5', ' 12 ', 5.0, numpy int); returned alphabets emptied by the caller; user dictionaries with extra non-amino-acid keys; the first cases of every shard are judged again at its end")
RULE += ("; round 5: extra keys with arbitrary values; an amino acid mapped onto an extra key (must be rejected)")
RULE += ("; round 7: sequences of 1001-1600 residues in the reduction laws")
RULE += ("; round 8: values with line breaks / blanks; dict subclasses that answer through __missing__ (accepted means applied by look-up)")
RULE += ("; round 9: two bad values whose lengths cancel; extra keys that are words over residue letters; dictionaries without any residue key")
RULE += ("; round 10: multi-letter keys spelling exactly the missing residues")
EXHAUSTIVE = {"quick": False, "thorough": False}
EXHAUSTIVE_NOTE = {"quick": "12 sizes x 20 residues enumerated completely; integer sizes 0..25",
                   "thorough": "12 sizes x 20 residues enumerated completely; integer sizes 0..25"}
ASSUMPTIONS = [
    "the documented partitions are those listed in the library documentation for sizes 2,3,4,5,6,8,10,11,12,15,18,20",
    "for a user alphabet the 'representatives' are the distinct images of the 20 amino acids",
    "entries of a user dictionary for keys beyond the 20 amino acids take no part in the reduction nor in the alphabet",
]
REQUIRED = {"all": ["salted_objects", "cells_checked", "sizes_rejected", "laws_checked", "user_total_accepted", "user_invalid_rejected",
                    "user_switch_on_same_object", "size_forms_accepted", "user_total_with_extra_keys", "user_bijections", "amino_acid_mapped_onto_extra_key", "longer_than_1000", "user_dictionaries_edited_in_place_between_calls"]}
SIZES = [2, 3, 4, 5, 6, 8, 10, 11, 12, 15, 18, 20]
NSEQ = {"quick": 600, "thorough": 4000}
NUSER = {"quick": 800, "thorough": 6000}


def cases(tier, seed):
    yield {"k": "cells"}
    yield {"k": "sizes"}
    rng = gen.sub_rng(seed, ID)
    for cls in ("uniform", "idp", "lowcomplexity"):
        yield {"k": "laws", "a": gen.rand_seq(rng, cls, lo=1001, hi=1600), "b": gen.rand_seq(rng, hi=60), "long": 1}
    for i in range(NSEQ[tier]):
        yield {"k": "laws", "a": gen.rand_seq(rng, hi=120), "b": gen.rand_seq(rng, hi=60)}
    for i in range(NUSER[tier]):
        yield {"k": "user", "s": gen.rand_seq(rng, hi=80), "o": rng.randrange(1 << 30)}


def red(obj, **kw):
    r = obj.get_reduced_alphabet_sequence(**kw)
    if not (isinstance(r, tuple) and len(r) == 2):
        raise AssertionError("not a (sequence, alphabet) pair: %r" % (r,))
    return r


def judge(case, rep, S):
    SP = S["SP"]
    k = case["k"]
    if k == "cells":
        whole = SP(M.AA)
        for size in SIZES:
            images = {}
            try:
                out_all, alpha_all = red(whole, alphabetSize=size)
            except Exception as e:
                rep.viol("predefined_raised", "size %d raised %s: %s" % (size, type(e).__name__, e), sig={"size": size})
                continue
            for i, res in enumerate(M.AA):
                out1, alpha1 = red(SP(res), alphabetSize=size)
                rep.cnt("cells_checked")
                rep.distinct((size, res))
                if len(out1) != 1 or len(out_all) != 20 or out1 != out_all[i]:
                    rep.viol("not_residue_by_residue", "size %d: %s alone -> %r but inside %s -> %r" % (size, res, out1, M.AA, out_all), sig={"size": size})
                images[res] = out1
                if list(alpha1) != list(alpha_all):
                    rep.viol("alphabet_depends_on_sequence", "size %d: alphabet %r for %s vs %r for all residues" % (size, alpha1, res, alpha_all), sig={"size": size})
            for g in M.ALPHABETS[size]:
                reps = {images[r] for r in g}
                if len(reps) != 1:
                    rep.viol("group_split", "size %d: documented group (%s) maps to several letters %r" % (size, g, {r: images[r] for r in g}),
                             sig={"size": size, "group": g})
                    continue
                r0 = next(iter(reps))
                if r0 not in g:
                    rep.viol("representative_outside_group", "size %d: group (%s) is represented by %r" % (size, g, r0), sig={"size": size, "group": g})
            if len(set(images.values())) != size:
                rep.viol("group_count", "size %d: %d distinct images %r" % (size, len(set(images.values())), images), sig={"size": size})
            if len(alpha_all) != size or set(alpha_all) != set(images.values()):
                rep.viol("alphabet_list", "size %d: returned alphabet %r but representatives are %r" % (size, alpha_all, sorted(set(images.values()))), sig={"size": size})
        rep.sample({"size": 8, "images": {r: red(SP(r), alphabetSize=8)[0] for r in M.AA}})
    elif k == "sizes":
        obj = SP("ACDEFGHIKLMNPQRSTVWY")
        for size in range(0, 26):
            if size in SIZES:
                continue
            try:
                r = obj.get_reduced_alphabet_sequence(size)
            except Exception:
                rep.cnt("sizes_rejected")
            else:
                rep.viol("size_accepted", "alphabet size %d accepted: %r" % (size, r), sig={"size": size})
        for size in (-1, 21, 100, 19, 7):
            try:
                r = obj.get_reduced_alphabet_sequence(alphabetSize=size)
            except Exception:
                rep.cnt("sizes_rejected")
            else:
                rep.viol("size_accepted", "alphabet size %d accepted: %r" % (size, r), sig={"size": size})
    elif k == "laws":
        a, b = case["a"], case["b"]
        if len(a) > 1000:
            rep.cnt("longer_than_1000")
        oa, ob, oab = SP(a), SP(b), SP(a + b)
        # integer-valued spellings of a predefined size: either rejected or exactly that size's reduction
        np = S["np"]
        for size in SIZES:
            want_seq = "".join(M.alphabet_group(size, c)[0] for c in a)        # group identity, compared through groups below
            for form in (str(size), " %d " % size, float(size), np.int64(size)):
                try:
                    r_seq, r_alpha = red(oa, alphabetSize=form)
                except Exception:
                    rep.cnt("size_forms_rejected")
                    continue
                rep.cnt("size_forms_accepted")
                r_int, a_int = red(SP(a), alphabetSize=size)
                if r_seq != r_int or list(r_alpha) != list(a_int):
                    rep.viol("size_argument_form", "alphabet size given as %r is accepted but reduces %s to %s / %r; size %d gives %s / %r" % (
                        form, a, r_seq, r_alpha, size, r_int, a_int), sig={"form": type(form).__name__})
        for size in SIZES:
            rep.cnt("laws_checked")
            rep.distinct((size, a, b))
            ra, al_a = red(oa, alphabetSize=size)
            rb, al_b = red(ob, alphabetSize=size)
            rab, al_ab = red(oab, alphabetSize=size)
            al_a_copy, al_b_copy, al_ab_copy = list(al_a), list(al_b), list(al_ab)
            # the caller owns what was returned: emptying it must not disturb any later call
            try:
                al_b.clear()
                al_ab.append("#")
            except Exception:
                pass
            al_b, al_ab = al_b_copy, al_ab_copy
            if len(ra) != len(a):
                rep.viol("length", "size %d: |reduce(%s)| = %d" % (size, a, len(ra)), sig={"size": size})
            if rab != ra + rb:
                rep.viol("concatenation", "size %d: reduce(a+b) != reduce(a)+reduce(b) for a=%s b=%s" % (size, a, b), sig={"size": size})
            rra, _ = red(SP(ra), alphabetSize=size)
            if rra != ra:
                rep.viol("idempotence", "size %d: reduce(reduce(%s)) = %s != %s" % (size, a, rra, ra), sig={"size": size})
            if not (list(al_a) == list(al_b) == list(al_ab)) or len(al_a) != size:
                rep.viol("alphabet_depends_on_sequence", "size %d: alphabets %r / %r / %r" % (size, al_a, al_b, al_ab), sig={"size": size})
            # residue by residue against the documented partition
            for x, y in zip(a, ra):
                if y not in M.alphabet_group(size, x) or (size == 20 and x != y):
                    rep.viol("wrong_group", "size %d: %s -> %s is outside its documented group (%s)" % (size, x, y, M.alphabet_group(size, x)),
                             sig={"size": size, "residue": x})
                    break
    else:
        judge_user(case, rep, S)


def judge_user(case, rep, S):
    seq = case["s"]
    rng = gen.sub_rng(case["o"], ID)
    obj = S["SP"](seq)
    if rng.random() < 0.2:
        SALT.salt(S, obj, seq, rng, rep)
    prev_valid = False
    for step in range(4):
        images = rng.sample(list(M.AA), rng.randint(1, 6))
        ua = {a: rng.choice(images) for a in M.AA}
        kind = rng.choice(["total", "total", "total_with_extras", "bijection", "partial", "replaced_key", "lower_value", "non_aa_value",
                           "non_dict", "wrong_type_value", "aa_onto_extra_key", "two_bad_values", "no_residue_keys", "total_with_word_keys", "grouped_keys"])
        if kind == "bijection":
            letters = list(M.AA)
            rng.shuffle(letters)
            ua = dict(zip(M.AA, letters))           # a one-to-one relabelling: still applied residue by residue
            if rng.random() < 0.3:
                ua = {a: {"D": "E", "E": "D", "K": "R", "R": "K"}.get(a, a) for a in M.AA}
            rep.cnt("user_bijections")
            kind = "total"
        if kind == "total" and rng.random() < 0.15:
            # a dict subclass that answers some residues through __missing__ (without storing them): whatever the library makes of
            # it, accepting it means applying it residue by residue with the same look-ups
            class Fallback(dict):
                def __missing__(self, key):
                    return fallback_letter
            fallback_letter = rng.choice(images)
            stored = {a: ua[a] for a in rng.sample(list(M.AA), rng.randint(5, 19))}
            fb = Fallback(stored)
            want_fb = "".join(fb[c] for c in seq)
            rep.cnt("user_alphabets_answering_through_missing")
            try:
                out_fb, alpha_fb = red(obj, userAlphabet=fb)
            except Exception:
                rep.cnt("user_invalid_rejected")
            else:
                if out_fb != want_fb or any(c not in alpha_fb for c in out_fb):
                    rep.viol("user_not_applied", "a dict subclass with __missing__ (stored %r, fallback %r) was accepted on %s but gave %s with alphabet %r; look-ups give %s" % (
                        stored, fallback_letter, seq, out_fb, alpha_fb, want_fb), sig={"step": step, "missing_subclass": True})
        if kind == "total_with_word_keys":
            # extra keys that are WORDS over residue letters (three-letter codes, names) - possibly spelled by the sequence - are
            # extra keys like any other: the reduction goes residue by residue
            words = ["ALA", "GLY", "LYS", "MET", "SER", "ASP", "ARG", "HIS", seq[:3], seq[1:4], seq[-2:]]
            for wkey in rng.sample([w_ for w_ in words if len(w_) >= 2], rng.randint(1, 3)):
                ua[wkey] = rng.choice(list(M.AA))
            rep.cnt("user_total_with_word_keys")
            kind = "total"
        if kind == "total_with_extras":
            # entries for keys that are not amino acids (ambiguity codes, lower case) are not part of the alphabet
            for extra in rng.sample(["B", "Z", "X", "U", "a", "k", "*"], rng.randint(1, 3)):
                ua[extra] = rng.choice([rng.choice(list(M.AA)), extra, "X", "-"])
            rep.cnt("user_total_with_extra_keys")
            kind = "total"
        if kind == "total":
            try:
                out, alpha = red(obj, userAlphabet=ua) if rng.random() < 0.5 else red(obj, alphabetSize=rng.choice([2, 20, 7]), userAlphabet=ua)
            except Exception as e:
                rep.viol("user_total_rejected", "a total user alphabet %r was rejected with %s: %s" % (ua, type(e).__name__, e))
                continue
            rep.cnt("user_total_accepted")
            rep.distinct((tuple(sorted(ua.items())), seq))
            if prev_valid:
                rep.cnt("user_switch_on_same_object")
            prev_valid = True
            want = "".join(ua[c] for c in seq)
            if out != want:
                rep.viol("user_not_applied", "user alphabet %r on %s gave %s, residue-by-residue application gives %s (call %d on this object)" % (
                    ua, seq, out, want, step), sig={"step": step})
            r3 = gen.sub_rng(case["o"] ^ (0x1212 + step), ID)       # own generator: the ordinary stream stays what it was
            if r3.random() < 0.35:
                # the caller goes on using the SAME dictionary object: edited in place to something invalid it must be refused, edited
                # in place to another total mapping it must be applied as it now reads
                rep.cnt("user_dictionaries_edited_in_place_between_calls")
                k_ = r3.choice(list(M.AA) if r3.random() < 0.5 else list(seq))
                old_ = ua[k_]
                how_ = r3.choice(["bad_value", "deleted", "none"])
                if how_ == "deleted":
                    del ua[k_]
                else:
                    ua[k_] = r3.choice(["X", "B", "", "1"]) if how_ == "bad_value" else None
                try:
                    r_ = obj.get_reduced_alphabet_sequence(userAlphabet=ua)
                except Exception:
                    rep.cnt("user_invalid_rejected")
                else:
                    rep.viol("user_invalid_accepted", "a dictionary accepted before and then edited in place (%s for %s: %r) was accepted again on %s: %r" % (
                        how_, k_, ua.get(k_, "<absent>"), seq, r_), sig={"kind": "edited_in_place"})
                ua[k_] = r3.choice([a for a in M.AA if a != old_])
                try:
                    out2, alpha2 = red(obj, userAlphabet=ua)
                except Exception as e:
                    rep.viol("user_total_rejected", "a total user alphabet %r (edited in place) was rejected with %s: %s" % (ua, type(e).__name__, e))
                else:
                    want2 = "".join(ua[c] for c in seq)
                    if out2 != want2 or sorted(alpha2) != sorted(set(ua[a] for a in M.AA)):
                        rep.viol("user_not_applied", "user alphabet %r (the dictionary of the previous call, one entry changed: %s) on %s gave %s / %r, residue-by-residue application gives %s" % (
                            ua, k_, seq, out2, alpha2, want2), sig={"step": step, "edited_in_place": True})
                ua[k_] = old_
            reps = []
            for a in ua.values():
                if a not in reps:
                    reps.append(a)
            images20 = sorted(set(ua[a] for a in M.AA))
            if sorted(alpha) != images20 or len(alpha) != len(set(alpha)):
                rep.viol("user_alphabet_list", "user alphabet whose 20 residues map onto %r returned alphabet %r on %s" % (images20, alpha, seq))
        else:
            bad = dict(ua)
            if kind == "partial":
                del bad[rng.choice(list(M.AA))]
            elif kind == "replaced_key":
                gone = rng.choice([a for a in M.AA if a not in seq] or list(M.AA))     # still exactly 20 entries
                del bad[gone]
                bad[rng.choice(["X", "B", gone.lower(), "TRP", 7])] = rng.choice(list(M.AA))
            elif kind == "lower_value":
                bad[rng.choice(list(M.AA))] = rng.choice(list(M.AA)).lower()
            elif kind == "non_aa_value":
                bad[rng.choice(list(M.AA))] = rng.choice(["B", "X", "Z", "1", "", "AL", "*", "-", "F\n", "\nF", "F ", " F", "F\r\n", "F\t", "f\n"])
            elif kind == "aa_onto_extra_key":
                # the image of an amino acid must be an amino acid, also when the dictionary has an entry for that image
                extra = rng.choice(["X", "B", "Z", "-", "k"])
                bad[extra] = rng.choice([extra, rng.choice(list(M.AA))])
                bad[rng.choice(list(seq)) if rng.random() < 0.7 else rng.choice(list(M.AA))] = extra
                rep.cnt("amino_acid_mapped_onto_extra_key")
            elif kind == "grouped_keys":
                # some residues are missing; multi-letter keys spelling exactly those residues do not make up for them
                gone_ = rng.sample(list(M.AA), rng.randint(2, 5))
                for a_ in gone_:
                    del bad[a_]
                rng.shuffle(gone_)
                pieces_ = ["".join(gone_)] if len(gone_) < 4 else ["".join(gone_[:2]), "".join(gone_[2:])]
                for grp_ in pieces_:
                    bad[grp_] = rng.choice(list(M.AA))
            elif kind == "two_bad_values":
                # two invalid values whose lengths add up to two valid ones
                k1, k2 = rng.sample(list(M.AA), 2)
                bad[k1] = ""
                bad[k2] = rng.choice(list(M.AA)) * 2
            elif kind == "no_residue_keys":
                # a non-empty dictionary without a single amino-acid key is not "no user alphabet"
                bad = rng.choice([{a.lower(): ua[a] for a in M.AA}, {"X": "A"}, {"ALA": "A", "GLY": "G"}, {1: "A"}, {"": ""}])
            elif kind == "wrong_type_value":
                bad[rng.choice(list(M.AA))] = rng.choice([None, 3, 2.5])
            else:
                bad = rng.choice([list(ua.items()), "ACDEFGHIKLMNPQRSTVWY", tuple(ua.keys()), [1, 2, 3]])
            try:
                r = obj.get_reduced_alphabet_sequence(userAlphabet=bad)
            except Exception:
                rep.cnt("user_invalid_rejected")
            else:
                rep.viol("user_invalid_accepted", "invalid user alphabet (%s) %r accepted on %s: %r (call %d on this object)" % (kind, bad, seq, r, step),
                         sig={"kind": kind})
