"""C08 - diagram-of-states region is total and follows the FCR/NCPR thresholds.

Oracle: exact-rational threshold cascade over (n+, n-, N).  Workload: every
triple with N up to a bound realised as a real sequence (random arrangement and
spelling); any exception is a violation ("never fails").  On a share of the
cases other read-only queries (incl. pH-dependent ones at the legal extremes)
are made on the same object first."""
from fractions import Fraction

from .. import gen
from .. import refmodel as M
from .. import salt as SALT

ID = "C08"
LEVEL = "exploration"
TECHNIQUE = "runtime monitoring: exact-rational reference oracle on observed get_phasePlotRegion() over an exhaustive composition space"
RULE = ("every triple (n+, n-, N) with N <= Nmax (quick 60, thorough 140) plus, for every larger N up to 260 (400) and "
        "every multiple of 20 up to 1000 (2000), the compositions on or next to a threshold (FCR within one residue of "
        "1/4 and 7/20, |NCPR| within one residue of 7/20), each realised as a sequence with a random arrangement and "
        "spelling; every 5th triple additionally as 2 more arrangements; distinct = distinct triple; non-trivial = all")
RULE += ("; added after the mutation rounds: a share typed with blanks / line breaks / lower case; history salt; every region asked twice; the first cases of every shard are judged again at its end")
RULE += ("; round 5: uncharged and weakly charged chains whose neutral residues come from few-letter alphabets (ACGT, ACGTN, GS, ...)")
RULE += ("; round 8: a third of the realisations are objects obtained by another route (file with various layouts, pickle, copy, typed text, backend object)")
EXHAUSTIVE = {"quick": True, "thorough": True}
EXHAUSTIVE_NOTE = {"quick": "all (n+, n-, N) with N <= 60 (39,710 triples)", "thorough": "all (n+, n-, N) with N <= 140"}
ASSUMPTIONS = [
    "the region is a function of (n+, n-, N) only (checked on re-arranged/re-spelled realisations of sampled triples)",
    "thresholds decided in exact rationals: 1/4, 7/20",
]
REQUIRED = {"all": ["salted_objects", "objects_by_other_routes", "objects_built_from_files", "region:1", "region:2", "region:3", "region:4", "region:5", "on_boundary:FCR=1/4",
                    "on_boundary:FCR=7/20", "on_boundary:|NCPR|=7/20", "after_other_queries", "whitespace_presentations"]}
NMAX = {"quick": 60, "thorough": 140}
Q = Fraction(1, 4)
T = Fraction(7, 20)


def region_exact(a, b, N):
    fcr = Fraction(a + b, N)
    ncpr = Fraction(a - b, N)
    if fcr < Q:
        return 1
    if fcr <= T:
        return 2
    if abs(ncpr) < T:
        return 3
    return 5 if a > b else 4


def cases(tier, seed):
    for w in gen.CODE_WORDS:
        yield {"word": w, "c": [sum(1 for c in w if c in "KR"), sum(1 for c in w if c in "DE"), len(w)]}
    for N in (14251, 20017) if tier == "quick" else (14251, 20017, 30011, 50021):
        for a, b in gen.near_threshold_compositions(N)[::7]:
            yield {"c": [a, b, N]}
    for N in range(1, NMAX[tier] + 1):
        for a in range(N + 1):
            for b in range(N - a + 1):
                yield {"c": [a, b, N]}
    # larger N: only the compositions on or next to a threshold (that is where rounding / inexact thresholds bite)
    big = list(range(NMAX[tier] + 1, 401)) + list(range(420, 2001, 20)) if tier == "thorough" else \
        list(range(NMAX[tier] + 1, 260)) + list(range(260, 1001, 20)) + [1300, 1320, 2000]
    for N in big:
        seen = set()
        for t in (Q, T):
            c0 = int(t * N)
            for tot in (c0 - 1, c0, c0 + 1):                 # FCR next to 1/4 and 7/20
                if 0 <= tot <= N:
                    for a in sorted({0, tot, tot // 2, (tot * 7) // 10, tot // 5}):
                        seen.add((a, tot - a))
        d0 = int(T * N)
        for diff in (d0 - 1, d0, d0 + 1):                    # |NCPR| next to 7/20, FCR above 7/20
            for minor in (0, 1, (N - diff) // 4, (N - diff) // 2):
                if diff >= 0 and minor >= 0 and diff + 2 * minor <= N:
                    seen.add((diff + minor, minor))
                    seen.add((minor, diff + minor))
        for a, b in sorted(seen):
            yield {"c": [a, b, N]}


NEUTRAL_SETS = ["ACGT", "G", "GS", "ACGTN", "HC", "ACG", "QN", "ACGTSYMWHVN", "P", "TGCA"]


def realise(rng, a, b, N):
    pat = [1] * a + [-1] * b + [0] * (N - a - b)
    rng.shuffle(pat)
    z = N - a - b
    if (a + b == 0 or rng.random() < 0.1) and z >= 1:
        # neutral residues drawn from a few letters only (every one of them present when there is room): uncharged and weakly
        # charged chains written in the alphabets of other kinds of record
        letters = NEUTRAL_SETS[(N + a) % len(NEUTRAL_SETS)]
        fill = list(letters[:z]) + [rng.choice(letters) for _ in range(max(0, z - len(letters)))]
        rng.shuffle(fill)
        it = iter(fill)
        return "".join(rng.choice("KR") if q > 0 else (rng.choice("DE") if q < 0 else next(it)) for q in pat)
    if rng.random() < 0.12:
        return gen.spell(rng, pat, neut="H")          # every neutral residue a histidine
    return gen.spell(rng, pat)


def judge(case, rep, S):
    a, b, N = case["c"]
    rng = gen.sub_rng(0, ID, a, b, N)
    want = region_exact(a, b, N)
    rep.distinct((a, b, N))
    rep.cnt("region:%d" % want)
    fcr = Fraction(a + b, N)
    if fcr == Q:
        rep.cnt("on_boundary:FCR=1/4")
    if fcr == T:
        rep.cnt("on_boundary:FCR=7/20")
    if abs(Fraction(a - b, N)) == T and fcr > T:
        rep.cnt("on_boundary:|NCPR|=7/20")
    nreal = 3 if (a + 3 * b + N) % 5 == 0 else 1
    for j in range(nreal):
        seq = case["word"] if case.get("word") else realise(rng, a, b, N)
        if (a + 2 * b + j) % 9 == 0:
            obj = S["SP"](SALT.present(rng, seq))           # typed with blanks / line breaks / lower case
            rep.cnt("whitespace_presentations")
        elif (a + b + j) % 3 == 1 and N <= 300:
            obj = SALT.make_object(S, seq, rng, rep)        # from a file, a pickle, a copy, typed text, a backend object
            rep.cnt("objects_by_other_routes")
        else:
            obj = S["SP"](seq)
        if (a + b + j) % 4 == 0:
            rep.cnt("after_other_queries")
            if N <= 40:
                SALT.salt(S, obj, seq, rng, rep, k=1 if N > 20 else None)
            else:
                SALT.salt(S, obj, seq, rng, rep, k=2, cheap=True)
        try:
            got = obj.get_phasePlotRegion()
        except Exception as e:
            rep.viol("raised", "get_phasePlotRegion raised %s: %s for (n+,n-,N)=%s (%s)" % (type(e).__name__, e, case["c"], seq[:80]),
                     sig={"expected": want})
            continue
        try:
            again = obj.get_phasePlotRegion()
        except Exception as e:
            again = "raised " + type(e).__name__
        if again != got:
            rep.viol("region_not_repeatable", "get_phasePlotRegion answered %r and then %r on one object (%s)" % (got, again, case["c"]))
        if got != want or isinstance(got, bool):
            rep.viol("region", "get_phasePlotRegion=%r but thresholds give %d for (n+,n-,N)=%s FCR=%s NCPR=%s (%s)" % (
                got, want, case["c"], fcr, Fraction(a - b, N), seq[:80]), sig={"expected": want, "got": repr(got)})
    if rep.evaluations % 4000 == 1:
        rep.sample({"n+": a, "n-": b, "N": N, "sequence": seq[:80], "region": want})
