"""Recording / seeded / hostile RNG shim.

localcider.backend.sequence and .wang_landau do `import random as rng` and then
`rand = rng.Random(); rand.seed(time.time())`.  Rebinding the module alias `rng`
to a Shim makes every stochastic execution replayable bit-for-bit without
editing the repository: Shim.Random() hands out TapeRandom generators seeded
from (master seed, stream number); their later .seed(time) calls are ignored;
every draw is recorded; a draw budget turns a non-terminating retry loop into
TapeExhausted (a BaseException, so no library `except` can swallow it)."""
import random


class TapeExhausted(BaseException):
    pass


class TapeRandom(random.Random):
    def __init__(self, seed, budget=200000, forced=None, log=None):
        random.Random.__init__(self, seed)
        self._locked = True
        self.budget = budget
        self.draws = 0
        self.forced = list(forced or [])     # hostile prefix: list of 'lo' / 'hi'
        self.log = log if log is not None else []
        self.own = []                        # this stream's own draws, in order

    # the library re-seeds from the wall clock: ignore it
    def seed(self, *a, **k):
        if getattr(self, "_locked", False):
            return None
        return random.Random.seed(self, *a, **k)

    def _tick(self):
        self.draws += 1
        if self.draws > self.budget:
            raise TapeExhausted("more than %d draws" % self.budget)

    def _force(self):
        if self.forced:
            return self.forced.pop(0)
        return None

    def random(self):
        self._tick()
        f = self._force()
        if f == "lo":
            v = 0.0
        elif f == "hi":
            v = 1.0 - 2.0 ** -53
        else:
            v = random.Random.random(self)
        self.log.append(("random", v))
        self.own.append(v)
        return v

    def randint(self, a, b):
        self._tick()
        f = self._force()
        if f == "lo":
            v = a
        elif f == "hi":
            v = b
        else:
            v = random.Random.randint(self, a, b)
        self.log.append(("randint", a, b, v))
        return v

    def sample(self, population, k, **kw):
        self._tick()
        f = self._force()
        if f in ("lo", "hi") and not isinstance(population, (set, frozenset, dict)):
            pop = list(population)
            if k > len(pop):
                raise ValueError("Sample larger than population or is negative")
            v = pop[:k] if f == "lo" else pop[len(pop) - k:][::-1]
        else:
            v = random.Random.sample(self, population, k, **kw)
        self.log.append(("sample", len(population), k, list(v)))
        return v

    def shuffle(self, x):
        self._tick()
        f = self._force()
        if f == "lo":
            pass                      # identity permutation
        elif f == "hi":
            x.reverse()
        else:
            random.Random.shuffle(self, x)
        self.log.append(("shuffle", len(x)))
        return None


class Shim:
    """Stands in for the `random` module inside the library modules."""

    def __init__(self, master_seed, budget=200000, hostile=None):
        self.master_seed = master_seed
        self.budget = budget
        self.hostile = hostile        # None or list-of-lists of forced outcomes per stream
        self.streams = []
        self.log = []

    def Random(self, *a):
        k = len(self.streams)
        forced = None
        if self.hostile:
            forced = self.hostile[k] if k < len(self.hostile) else self.hostile[-1]
        r = TapeRandom("%s/%d" % (self.master_seed, k), budget=self.budget, forced=forced, log=self.log)
        self.streams.append(r)
        return r

    def total_draws(self):
        return sum(s.draws for s in self.streams)

    def __getattr__(self, name):
        return getattr(random, name)


class installed:
    """Context manager: rebind `rng` in the given library modules to a Shim."""

    def __init__(self, modules, shim):
        self.modules = modules
        self.shim = shim
        self.saved = []

    def __enter__(self):
        for m in self.modules:
            self.saved.append((m, m.rng))
            m.rng = self.shim
        return self.shim

    def __exit__(self, *exc):
        for m, old in self.saved:
            m.rng = old
        return False
