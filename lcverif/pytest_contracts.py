"""pytest plugin (auxiliary workload): runs the repository's own test-suite with
the lcverif contracts installed on the live Sequence class.  A contract that
fires there is reported by name; the plugin writes the per-contract evaluation
counts to LCVERIF_CONTRACT_COUNTS when the session ends."""
import json
import os


def pytest_configure(config):
    from lcverif import sut
    sut.load(contracts=True)


def pytest_sessionfinish(session, exitstatus):
    path = os.environ.get("LCVERIF_CONTRACT_COUNTS")
    if path:
        from lcverif import contracts
        with open(path, "w") as fh:
            json.dump(contracts.snapshot_counts(), fh)
