"""Online contracts (icontract) installed in place on the real backend Sequence
class.  They run on every public call made by any workload, so they watch the
states the drivers pass through, not only the values the drivers ask for.
All conditions are side-effect free: they read attributes only and keep their
own bookkeeping outside the observed object."""
import threading
import weakref
from collections import Counter

EVALS = Counter()          # contract name -> number of evaluations
FULL = Counter()           # contract name -> number of full (non-memoised) evaluations
_last_ok = weakref.WeakKeyDictionary()

POS = frozenset("KR+")
NEG = frozenset("DE-")
COLOURS = frozenset(['aqua', 'black', 'blue', 'fuchsia', 'gray', 'green', 'lime', 'maroon', 'navy',
                     'olive', 'orange', 'purple', 'red', 'silver', 'teal', 'white', 'yellow'])
AA20 = frozenset("ACDEFGHIKLMNPQRSTVWY")


class ContractBroken(BaseException):
    """Raised by a contract.  BaseException so that neither the library's nor a
    driver's `except Exception` can mistake it for an ordinary rejection."""

    def __init__(self, name, detail=""):
        BaseException.__init__(self, "%s %s" % (name, detail))
        self.name = name
        self.detail = detail


def _fingerprint(self):
    d = self.__dict__
    cp = d.get("chargePattern")
    try:
        cpb = cp.tobytes() if hasattr(cp, "tobytes") else repr(cp)
    except Exception:
        cpb = repr(cp)
    pal = d.get("aminoAcidColorMap")
    return (d.get("seq"), d.get("len"), cpb,
            tuple(d["phosphosites"]) if isinstance(d.get("phosphosites"), list) else repr(d.get("phosphosites")),
            tuple(sorted(pal.items())) if isinstance(pal, dict) else repr(pal),
            repr(d.get("dmax")))


def state_problem(self):
    """Return None when the object's representation is self-consistent, else a
    description.  Tolerates a partially constructed object (mid-__init__)."""
    d = self.__dict__
    if "seq" not in d or "len" not in d:
        return None
    seq = d["seq"]
    if not isinstance(seq, str):
        return "seq is not a str: %r" % (seq,)
    if d["len"] != len(seq):
        return "len=%r but len(seq)=%d" % (d["len"], len(seq))
    cp = d.get("chargePattern")
    if cp is not None:
        try:
            n = len(cp)
        except Exception:
            return "chargePattern has no length: %r" % (cp,)
        if n != len(seq):
            return "chargePattern has %d entries for %d residues" % (n, len(seq))
        for i, ch in enumerate(seq):
            want = 1 if ch in POS else (-1 if ch in NEG else 0)
            v = cp[i]
            got = 1 if v > 0 else (-1 if v < 0 else 0)
            if got != want:
                return "chargePattern[%d]=%r for residue %r in %r" % (i, v, ch, seq)
    ps = d.get("phosphosites")
    if ps is not None:
        if not isinstance(ps, list):
            return "phosphosites is not a list: %r" % (ps,)
        seen = set()
        for p in ps:
            if isinstance(p, bool) or not isinstance(p, int) and not hasattr(p, "__index__"):
                return "phosphosite %r is not an integer" % (p,)
            if not (0 <= p < len(seq)):
                return "stored phosphosite index %r outside 0..%d" % (p, len(seq) - 1)
            if seq[p] not in "STY":
                return "stored phosphosite index %r holds %r" % (p, seq[p])
            if p in seen:
                return "stored phosphosite index %r repeated" % (p,)
            seen.add(p)
    pal = d.get("aminoAcidColorMap")
    if pal is not None:
        if not isinstance(pal, dict) or set(pal.keys()) != set(AA20):
            return "palette keys are not the 20 amino acids: %r" % (pal,)
        for k, v in pal.items():
            if v not in COLOURS:
                return "palette[%s]=%r is not one of the 17 colours" % (k, v)
    dm = d.get("dmax")
    if dm is not None:
        try:
            ok = (dm == -1) or (dm >= 0)
        except Exception:
            ok = False
        if not ok:
            return "dmax=%r is neither -1 nor >= 0" % (dm,)
    return None


_memo_lock = threading.RLock()         # the monitor's own bookkeeping is shared by every thread a workload starts
_tls = threading.local()


def sequence_state_ok(self):
    EVALS["inv:Sequence.state"] += 1
    try:
        fp = _fingerprint(self)
        with _memo_lock:
            hit = _last_ok.get(self) == fp
        if hit:
            return True
    except Exception:
        fp = None
    FULL["inv:Sequence.state"] += 1
    prob = state_problem(self)
    if prob is None:
        if fp is not None:
            try:
                with _memo_lock:
                    _last_ok[self] = fp
            except Exception:
                pass
        return True
    _tls.last = prob
    return False


def _inv_error(self):
    return ContractBroken("inv:Sequence.state", getattr(_tls, "last", ""))


def _post(name, pred):
    def cond(result):
        EVALS[name] += 1
        return pred(result)
    cond.__name__ = "post_" + name.replace(":", "_").replace(".", "_")

    def err(result):
        return ContractBroken(name, "result=%r" % (result,))
    return cond, err


def _num_ok(pred):
    def f(r):
        try:
            return bool(pred(r))
        except Exception:
            return False
    return f


def move_result_ok(self, result):
    EVALS["post:move.rearrangement"] += 1
    try:
        return (result.__class__ is self.__class__ and sorted(result.seq) == sorted(self.seq)
                and result.len == len(result.seq) and len(result.chargePattern) == len(result.seq))
    except Exception:
        return False


def _move_err(self, result):
    return ContractBroken("post:move.rearrangement",
                          "parent=%r result=%r" % (getattr(self, "seq", None), getattr(result, "seq", result)))


INSTALLED = []


def install(sut):
    import icontract
    S = sut["Sequence"]
    if getattr(S, "_lcverif_contracts", False):
        return
    posts = {
        "kappa": _num_ok(lambda r: r == -1 or r >= 0),
        "delta": _num_ok(lambda r: r >= 0),
        "deltaForm": _num_ok(lambda r: r >= 0),
        "sigma": _num_ok(lambda r: r >= 0),
        "phasePlotRegion": _num_ok(lambda r: r in (1, 2, 3, 4, 5)),
        "Fplus": _num_ok(lambda r: 0 <= r <= 1),
        "Fminus": _num_ok(lambda r: 0 <= r <= 1),
    }
    for meth, pred in posts.items():
        cond, err = _post("post:Sequence.%s" % meth, pred)
        setattr(S, meth, icontract.ensure(cond, error=err, enabled=True)(getattr(S, meth)))
        INSTALLED.append("post:Sequence.%s" % meth)
    for meth in ("swapRes", "swapRandChargeRes", "full_shuffle", "permute_block_swap", "permute_cluster_charges"):
        setattr(S, meth, icontract.ensure(move_result_ok, error=_move_err, enabled=True)(getattr(S, meth)))
    INSTALLED.append("post:move.rearrangement")
    icontract.invariant(sequence_state_ok, error=_inv_error, enabled=True)(S)
    INSTALLED.append("inv:Sequence.state")
    S._lcverif_contracts = True


def snapshot_counts():
    out = {}
    for k, v in EVALS.items():
        out["contract_evals:" + k] = v
    for k, v in FULL.items():
        out["contract_full_evals:" + k] = v
    return out
