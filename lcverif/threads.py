"""Concurrent callers, each with objects of its own.

The library starts no threads, but its users do (thread pools over a proteome).  Nothing in the properties lets an
answer depend on what another thread is doing to a *different* object, so module-level state that a call changes
"temporarily" (a table re-scaled and restored, a scratch buffer, a current-object slot) is observable here and
nowhere in a single-threaded run.  Objects are never shared between threads: the library does not promise that,
and its own delta-max search publishes intermediate values on the object while it runs.

`own_object_agreement` computes every (sequence, getter) value once single-threaded on fresh objects, then lets
several threads ask the same questions on their own fresh objects in shuffled order with a very short interpreter
switch interval, and compares with `==` (the computations are deterministic)."""
import random
import sys
import threading


def _plain(v):
    try:
        import numpy
        if isinstance(v, numpy.ndarray):
            return ("ndarray", v.shape, v.tolist())
    except Exception:
        pass
    if isinstance(v, dict):
        return ("dict", sorted((repr(k), _plain(x)) for k, x in v.items()))
    if isinstance(v, (list, tuple)):
        return (type(v).__name__, [_plain(x) for x in v])
    if isinstance(v, float) and v != v:
        return "nan"
    return v


def own_object_agreement(make, seqs, getters, rep, facet, nthreads=6, rounds=2, seed=0, counter="thread_rounds"):
    """make(seq) -> object; getters: {name: callable(obj)}.  Reports at most one violation (the first disagreement)."""
    names = sorted(getters)
    ref = {}
    for s in seqs:
        o = make(s)
        for nm in names:
            try:
                ref[(s, nm)] = ("ok", _plain(getters[nm](o)))
            except Exception as e:          # an answer may legitimately be a rejection: then it must be one in every thread too
                ref[(s, nm)] = ("raised", type(e).__name__)
    problems = []
    fatal = []
    lock = threading.Lock()
    start = threading.Barrier(nthreads)

    def worker(ti):
        rng = random.Random("%s|%d" % (seed, ti))
        try:
            start.wait(timeout=60)
            for _ in range(rounds):
                objs = {s: make(s) for s in seqs}
                todo = [(s, nm) for s in seqs for nm in names]
                rng.shuffle(todo)
                for s, nm in todo:
                    try:
                        got = ("ok", _plain(getters[nm](objs[s])))
                    except Exception as e:
                        got = ("raised", type(e).__name__)
                    if got != ref[(s, nm)]:
                        with lock:
                            problems.append((s, nm, got, ref[(s, nm)], ti))
                        return
        except BaseException as e:          # contract violations are BaseExceptions: hand them to the caller's thread
            with lock:
                fatal.append(e)

    old = sys.getswitchinterval()
    sys.setswitchinterval(1e-6)
    try:
        ts = [threading.Thread(target=worker, args=(i,), daemon=True) for i in range(nthreads)]
        for t in ts:
            t.start()
        for t in ts:
            t.join(600)
    finally:
        sys.setswitchinterval(old)
    rep.cnt(counter, nthreads * rounds)
    rep.cnt("thread_questions", nthreads * rounds * len(seqs) * len(names))
    if fatal:
        raise fatal[0]
    if problems:
        s, nm, got, want, ti = problems[0]
        rep.viol(facet, "%d threads, each with objects of its own: %s of %s answered %r in thread %d, single-threaded it is %r" % (
            nthreads, nm, s[:80], got, ti, want), sig={"getter": nm, "concurrent": True})
        return False
    return True
