"""Per-shard report: what the monitors observed (counters, distinct non-trivial
cases, samples) and what they judged (violations, skips, inconclusive notes)."""
import hashlib
import json
import os
import sys
from collections import Counter

MAX_VIOL_PER_SHARD = 400
MAX_PER_SIGNATURE = 4
MAX_SAMPLES_PER_SHARD = 4


def jsonable(x):
    """Best-effort conversion of witnesses to JSON-able values."""
    try:
        import numpy as np
    except Exception:  # pragma: no cover
        np = None
    if isinstance(x, (str, int, bool)) or x is None:
        return x
    if isinstance(x, float):
        if x != x or x in (float("inf"), float("-inf")):
            return repr(x)
        return x
    if np is not None and isinstance(x, np.generic):
        return jsonable(x.item())
    if np is not None and isinstance(x, np.ndarray):
        return jsonable(x.tolist())
    if isinstance(x, dict):
        return {str(k): jsonable(v) for k, v in x.items()}
    if isinstance(x, (list, tuple)):
        return [jsonable(v) for v in x]
    if isinstance(x, (set, frozenset)):
        return sorted((jsonable(v) for v in x), key=repr)
    if isinstance(x, bytes):
        return {"__bytes__": x.decode("latin1")}
    return repr(x)


def key_hash(key):
    return int.from_bytes(hashlib.blake2b(repr(key).encode(), digest_size=8).digest(), "big")


class Report:
    def __init__(self, prop):
        self.prop = prop
        self.evaluations = 0
        self.counters = Counter()
        self.nontrivial = set()
        self.samples = []
        self.violations = []
        self.nviol = 0
        self.notes = []           # inconclusive reasons raised by the monitor
        self.current_case = None
        self._per_sig = {}

    # -- observation -----------------------------------------------------
    def begin(self, case):
        self.current_case = case
        self.evaluations += 1

    def cnt(self, name, n=1):
        self.counters[name] += n

    def distinct(self, key):
        """Register a distinct non-trivial case (by the monitor's stated rule)."""
        self.nontrivial.add(key_hash(key))

    def sample(self, obj):
        if len(self.samples) < MAX_SAMPLES_PER_SHARD:
            self.samples.append(jsonable(obj))

    # -- judgement -------------------------------------------------------
    def viol(self, facet, detail, sig=None, case=None, extra=None):
        """A refuting observation.  `facet` names which part of the property
        failed, `sig` is the mechanism signature used by the known-finding
        matcher, `case` (default: current case) is what replays it."""
        self.nviol += 1
        self.counters["violation:" + facet] += 1
        # keep a few witnesses per distinct mechanism signature, so that many hits of one
        # (possibly known) mechanism can never crowd out a different violation
        sigkey = (facet, json.dumps(jsonable(sig or {}), sort_keys=True))
        self._per_sig[sigkey] = self._per_sig.get(sigkey, 0) + 1
        if self._per_sig[sigkey] <= MAX_PER_SIGNATURE and len(self.violations) < MAX_VIOL_PER_SHARD:
            self.violations.append({
                "property": self.prop,
                "facet": facet,
                "detail": str(detail)[:2000],
                "sig": jsonable(sig or {}),
                "case": jsonable(case if case is not None else self.current_case),
                "extra": jsonable(extra) if extra is not None else None,
                "env": {"PYTHONHASHSEED": os.environ.get("PYTHONHASHSEED", ""), "python_optimize": int(sys.flags.optimize)},
            })

    def inconclusive(self, why):
        if why not in self.notes:
            self.notes.append(why)

    # -- transport -------------------------------------------------------
    def dump(self):
        return {
            "prop": self.prop,
            "evaluations": self.evaluations,
            "counters": dict(self.counters),
            "nontrivial": sorted(self.nontrivial),
            "samples": self.samples,
            "violations": self.violations,
            "nviol": self.nviol,
            "notes": self.notes,
        }


def merge(dumps, prop):
    out = {"prop": prop, "evaluations": 0, "counters": Counter(), "nontrivial": set(),
           "samples": [], "violations": [], "nviol": 0, "notes": []}
    for d in dumps:
        out["evaluations"] += d["evaluations"]
        out["counters"].update(d["counters"])
        out["nontrivial"].update(d["nontrivial"])
        out["samples"].extend(d["samples"])
        out["violations"].extend(d["violations"])
        out["nviol"] += d["nviol"]
        for n in d["notes"]:
            if n not in out["notes"]:
                out["notes"].append(n)
    return out
