"""Reference models written from the property statements and the cited
definitions.  None of this imports or calls localcider; arithmetic is exact
(fractions) where a threshold or a definition is decided, plain Python floats
for bulk work.  Tables are a second, independent transcription of the published
per-residue values."""
import math
from fractions import Fraction
from functools import lru_cache

AA = "ACDEFGHIKLMNPQRSTVWY"
POS = "KR"
NEG = "DE"
NEUTRALS = "".join(a for a in AA if a not in POS + NEG)      # 16 letters


def charge(ch):
    return 1 if ch in POS else (-1 if ch in NEG else 0)


def pattern(seq):
    return tuple(charge(c) for c in seq)


def counts(pat):
    p = sum(1 for q in pat if q > 0)
    n = sum(1 for q in pat if q < 0)
    return p, n, len(pat) - p - n


def pat_str(pat):
    return "".join("+" if q > 0 else ("-" if q < 0 else "0") for q in pat)


def pat_from_str(s):
    return tuple(1 if c == "+" else (-1 if c == "-" else 0) for c in s)


# --------------------------------------------------------------------------
# Das-Pappu delta
# --------------------------------------------------------------------------
def sigma_exact(p, n, L):
    if p + n == 0:
        return Fraction(0)
    return Fraction((p - n) ** 2, L * (p + n))


def delta_exact(pat):
    """Mean over blob sizes 5 and 6 of the mean squared deviation between the
    whole-sequence sigma and every sliding blob's sigma; a blob size longer
    than the sequence contributes 0."""
    L = len(pat)
    p, n, _ = counts(pat)
    sig = sigma_exact(p, n, L)
    total = Fraction(0)
    for w in (5, 6):
        nb = L - w + 1
        if nb <= 0:
            continue
        acc = Fraction(0)
        for i in range(nb):
            blob = pat[i:i + w]
            bp = sum(1 for q in blob if q > 0)
            bn = sum(1 for q in blob if q < 0)
            acc += (sig - sigma_exact(bp, bn, w)) ** 2
        total += acc / nb
    return total / 2


def delta_float(pat):
    L = len(pat)
    cp = [0] * (L + 1)
    cn = [0] * (L + 1)
    for i, q in enumerate(pat):
        cp[i + 1] = cp[i] + (1 if q > 0 else 0)
        cn[i + 1] = cn[i] + (1 if q < 0 else 0)
    P, N = cp[L], cn[L]
    sig = 0.0 if P + N == 0 else (P - N) ** 2 / (L * (P + N))
    total = 0.0
    for w in (5, 6):
        nb = L - w + 1
        if nb <= 0:
            continue
        acc = 0.0
        for i in range(nb):
            bp = cp[i + w] - cp[i]
            bn = cn[i + w] - cn[i]
            bs = 0.0 if bp + bn == 0 else (bp - bn) ** 2 / (w * (bp + bn))
            d = sig - bs
            acc += d * d
        total += acc / nb
    return total / 2


def sigma_profile_delta(pat):
    """delta written through the sigma sliding-window profiles (C10 link)."""
    return delta_float(pat)


# --------------------------------------------------------------------------
# documented delta-max candidate family
# --------------------------------------------------------------------------
def regime(p, n, z):
    if p + n == 0:
        return "uncharged"
    if p == 0 or n == 0:
        return "one_charge_type"
    if z == 0:
        return "no_neutrals"
    if z >= 18:
        return "mixed_ge18_neutrals"
    return "mixed_lt18_neutrals"


def _slide(minor_sym, minor_len, major_sym, major_len):
    for pos in range(major_len + 1):
        yield (major_sym,) * pos + (minor_sym,) * minor_len + (major_sym,) * (major_len - pos)


def families(p, n, z):
    """List of candidate families (each a list of patterns).  More than one
    family is returned only where the statement leaves a tie open (equally long
    blocks): the oracle then accepts the maximum of either."""
    r = regime(p, n, z)
    if r == "uncharged":
        return [[(0,) * z]]
    if r == "one_charge_type":
        c = 1 if n == 0 else -1
        k = p + n
        fam_charged_slides = list(_slide(c, k, 0, z))
        fam_neutral_slides = list(_slide(0, z, c, k))
        if z > k:
            return [fam_charged_slides]
        if z < k:
            return [fam_neutral_slides]
        return [fam_neutral_slides, fam_charged_slides]
    if r == "no_neutrals":
        if p > n:
            return [list(_slide(-1, n, 1, p))]
        if n > p:
            return [list(_slide(1, p, -1, n))]
        return [list(_slide(1, p, -1, n)), list(_slide(-1, n, 1, p))]
    fam = []
    if r == "mixed_ge18_neutrals":
        for s in range(0, 7):
            for e in range(0, 7):
                m = z - s - e
                fam.append((0,) * s + (1,) * p + (0,) * m + (-1,) * n + (0,) * e)
    else:
        for m in range(0, z + 1):
            for s in range(0, z - m + 1):
                e = z - m - s
                fam.append((0,) * s + (1,) * p + (0,) * m + (-1,) * n + (0,) * e)
    return [fam]


@lru_cache(maxsize=200000)
def dmax_family(p, n, z):
    """(list of acceptable maxima, best pattern of the first family)."""
    vals = []
    pats = []
    for fam in families(p, n, z):
        best = -1.0
        bp = None
        for cand in fam:
            d = delta_float(cand)
            if d > best:
                best = d
                bp = cand
        vals.append(best)
        pats.append(bp)
    return tuple(vals), pats[0]


def close(a, b, rel=1e-9, ab=1e-12):
    try:
        if a == b:
            return True
        return abs(a - b) <= ab + rel * max(abs(a), abs(b))
    except Exception:
        return False


def kappa_ref(pat):
    """Reference kappa = clamp(delta / documented-family maximum); None when the
    ratio is too close to a discontinuity to judge."""
    p, n, z = counts(pat)
    vals, _ = dmax_family(p, n, z)
    m = vals[0]
    if m == 0:
        return -1
    r = delta_float(pat) / m
    if 1.0 < r < 1.1:
        return 1.0
    return r


# --------------------------------------------------------------------------
# SCD (Sawle & Ghosh)
# --------------------------------------------------------------------------
def scd_ref(pat):
    N = len(pat)
    idx = [(i, q) for i, q in enumerate(pat) if q != 0]
    terms = []
    for a in range(len(idx)):
        m, qm = idx[a]
        for b in range(a):
            n_, qn = idx[b]
            terms.append(qm * qn * math.sqrt(m - n_))
    return math.fsum(terms) / N


# --------------------------------------------------------------------------
# per-residue tables (independent transcription)
# --------------------------------------------------------------------------
KD = {'I': 4.5, 'V': 4.2, 'L': 3.8, 'F': 2.8, 'C': 2.5, 'M': 1.9, 'A': 1.8, 'G': -0.4, 'T': -0.7,
      'S': -0.8, 'W': -0.9, 'Y': -1.3, 'P': -1.6, 'H': -3.2, 'E': -3.5, 'Q': -3.5, 'D': -3.5,
      'N': -3.5, 'K': -3.9, 'R': -4.5}
# Wimley-White whole-residue interface scale, sign chosen so that hydrophobic is positive
WW = {'A': -0.17, 'R': -0.81, 'N': -0.42, 'D': -1.23, 'C': 0.24, 'Q': -0.58, 'E': -2.02, 'G': -0.01,
      'H': -0.96, 'I': 0.31, 'L': 0.56, 'K': -0.99, 'M': 0.23, 'F': 1.13, 'P': -0.45, 'S': -0.13,
      'T': -0.14, 'W': 1.85, 'Y': 0.94, 'V': -0.07}
PPII = {
    'hilser': {'A': 0.37, 'C': 0.25, 'D': 0.30, 'E': 0.42, 'F': 0.17, 'G': 0.13, 'H': 0.20, 'I': 0.39,
               'K': 0.56, 'L': 0.24, 'M': 0.36, 'N': 0.27, 'P': 1.00, 'Q': 0.53, 'R': 0.38, 'S': 0.24,
               'T': 0.32, 'V': 0.39, 'W': 0.25, 'Y': 0.25},
    'creamer': {'A': 0.61, 'C': 0.55, 'D': 0.63, 'E': 0.61, 'F': 0.58, 'G': 0.58, 'H': 0.55, 'I': 0.50,
                'K': 0.59, 'L': 0.58, 'M': 0.55, 'N': 0.55, 'P': 0.67, 'Q': 0.66, 'R': 0.61, 'S': 0.58,
                'T': 0.53, 'V': 0.49, 'W': 0.58, 'Y': 0.58},
    'kallenbach': {'A': 0.818, 'C': 0.557, 'D': 0.552, 'E': 0.684, 'F': 0.639, 'G': 0.500, 'H': 0.428,
                   'I': 0.519, 'K': 0.581, 'L': 0.574, 'M': 0.498, 'N': 0.667, 'P': 1.000, 'Q': 0.654,
                   'R': 0.638, 'S': 0.774, 'T': 0.553, 'V': 0.743, 'W': 0.764, 'Y': 0.630},
}
MW = {'A': 89.1, 'R': 174.2, 'N': 132.1, 'D': 133.1, 'C': 121.2, 'E': 147.1, 'Q': 146.2, 'G': 75.1,
      'H': 155.2, 'I': 131.2, 'L': 131.2, 'K': 146.2, 'M': 149.2, 'F': 165.2, 'P': 115.1, 'S': 105.1,
      'T': 119.1, 'W': 204.2, 'Y': 181.2, 'V': 117.1}
DISORDER_PROMOTING = frozenset("TAGRDHQKSEP")       # TOP-IDP
EXPANDING = frozenset("DEKRP")
PKA = {'C': 8.5, 'Y': 10.1, 'H': 6.5, 'E': 4.1, 'D': 3.9, 'K': 10.0, 'R': 12.5}   # EMBOSS
TITR_POS = "KRH"
TITR_NEG = "DECY"


def hh_charges(seq, pH):
    """(net, total) charge of the chain from Henderson-Hasselbalch fractions."""
    net = []
    tot = []
    for r in seq:
        if r in TITR_POS:
            f = 1.0 / (1.0 + 10.0 ** (pH - PKA[r]))
            net.append(f)
            tot.append(f)
        elif r in TITR_NEG:
            f = 1.0 / (1.0 + 10.0 ** (PKA[r] - pH))
            net.append(-f)
            tot.append(f)
    return math.fsum(net), math.fsum(tot)


# --------------------------------------------------------------------------
# reduced alphabets as documented (webpage.MD / docstring)
# --------------------------------------------------------------------------
ALPHABETS = {
    2: ["LVIMCAGSTPFYW", "EDNQKRH"],
    3: ["LVIMCAGSTP", "FYW", "EDNQKRH"],
    4: ["LVIMC", "AGSTP", "FYW", "EDNQKRH"],
    5: ["LVIMC", "ASGTP", "FYW", "EDNQ", "KRH"],
    6: ["LVIM", "ASGT", "PHC", "FYW", "EDNQ", "KR"],
    8: ["LVIMC", "AG", "ST", "P", "FYW", "EDNQ", "KR", "H"],
    10: ["LVIM", "C", "A", "G", "ST", "P", "FYW", "EDNQ", "KR", "H"],
    11: ["LVIM", "C", "A", "G", "ST", "P", "FYW", "ED", "NQ", "KR", "H"],
    12: ["LVIM", "C", "A", "G", "ST", "P", "FY", "W", "EQ", "DN", "KR", "H"],
    15: ["LVIM", "C", "A", "G", "S", "T", "P", "FY", "W", "E", "Q", "D", "N", "KR", "H"],
    18: ["LM", "VI", "C", "A", "G", "S", "T", "P", "F", "Y", "W", "E", "D", "N", "Q", "K", "R", "H"],
    20: list(AA),
}


def alphabet_group(size, res):
    for g in ALPHABETS[size]:
        if res in g:
            return g
    raise KeyError(res)


def shannon(counts_, base):
    tot = sum(counts_)
    h = 0.0
    for c in counts_:
        if c:
            p = c / tot
            h -= p * math.log(p)
    return h / math.log(base)
