#!/bin/bash
# usage: tools/round2.sh <NN>   - confirm round-2 mutants of property C<NN> (worktree /tmp/wt2_C<NN>), store as seeded/C<NN>-r2mK, run own check + C15
nn="$1"; wt=/tmp/wt2_C$nn
for m in m1 m2 m3; do
  [ -f "$wt/mutants/$m/patch.diff" ] || continue
  mkdir -p "$wt/mutants/r2$m"; cp "$wt/mutants/$m/"* "$wt/mutants/r2$m/" 2>/dev/null
  /verif/tools/confirm_mutant.sh "$wt" "r2$m" "C$nn"
done
EXTRA="${EXTRA-C15}" /verif/tools/matrix.sh /tmp/r2/matrix_C$nn.tsv $(ls -d /verif/seeded/C$nn-r2m*/ 2>/dev/null) >/dev/null 2>&1
cat /tmp/r2/matrix_C$nn.tsv
