#!/bin/bash
# usage: tools/sweep.sh <tier> <seed>...   - every check at the given tier for each seed; prints one line per run
tier="$1"; shift
for seed in "$@"; do
  for i in 01 02 03 04 05 06 07 08 09 10 11 12 13 14 15 16 17 18 19 20; do
    s=$(date +%s)
    out=$(VERIF_SEED=$seed LCVERIF_EVIDENCE_DIR=${LCVERIF_EVIDENCE_DIR:-/tmp/lcv_sweep_ev} LCVERIF_REPLAY_DIR=${LCVERIF_REPLAY_DIR:-/tmp/lcv_sweep_replays_$seed} ./check C$i --tier "$tier" 2>&1); rc=$?
    e=$(date +%s)
    echo "seed=$seed C$i tier=$tier rc=$rc wall=$((e-s))s"
    if [ $rc != 0 ]; then echo "$out" | grep -E "^(VIOLATION|  facet|INCONCLUSIVE)" | head -8 | cut -c1-600; fi
  done
done
