#!/usr/bin/env python3
"""usage: tools/gen_matrix.py  - rewrites seeded/MATRIX.md from the meta.json files of the seeded mutants"""
import glob
import json
import os
import re

ROOT = "/verif/seeded"
rows = []
for mp in sorted(glob.glob(os.path.join(ROOT, "*", "meta.json"))):
    name = os.path.basename(os.path.dirname(mp))
    m = json.load(open(mp))
    rnd = m.get("round") or (int(re.search(r"-r(\d+)m", name).group(1)) if re.search(r"-r(\d+)m", name) else 1)
    notes = (m.get("needs_to_manifest") or "").strip().split("\n")
    what = notes[0].lstrip("# ").replace("|", "/").strip()[:220] if notes else ""
    by = m.get("detected_by") or {}
    caught = ["%s (%s)" % (k, v.get("first_facet") or "violation") for k, v in sorted(by.items()) if v.get("exit") == 1]
    if m.get("deliberately_not_detected"):
        caught_txt = "deliberately not detected: " + str(m["deliberately_not_detected"]).replace("|", "/")[:200]
    else:
        caught_txt = "; ".join(caught) if caught else "NOT CAUGHT"
    before = ""
    key = "detected_before_round%d_hardening" % rnd
    if key in m:
        before = "yes" if m[key] else "no"
    rows.append((m.get("property", name.split("-")[0]), rnd, name, what, caught_txt, before))

rows.sort(key=lambda r: (r[0], r[1], r[2]))
nround = max(r[1] for r in rows)
out = ["# Seeded mutants and the checks that catch them", "",
       "Each directory holds `patch.diff` (against /repo HEAD), the sub-agent's `demo.py` (exit 0 on the clean tree, 1 with the patch; "
       "run with `PYTHONPATH=<patched tree>`), its `NOTES.md` and `meta.json` (what it needs to manifest, how it was confirmed, which checks report it).",
       "All were written by independent sub-agents that saw only the property text and a scratch worktree (%d rounds of 60; every round after the first "
       "asked for rarer triggers and mechanisms not tried before), and confirmed by `tools/confirm_mutant.sh` (patch applies; repository test-suite "
       "unchanged: 42 passed / the same 10 failed; demo fails with and passes without the patch)." % nround,
       "Detection was measured with `tools/mutant.sh` / `tools/matrix.sh` (scratch copy of /repo HEAD + patch, `VERIF_REPO=<copy> ./check <ID> --tier quick`). "
       "From round 2 on the last column says whether the mutant was already caught by the checks as they stood *before* that round's hardening "
       "(commit 5d9d3aa / tags r3-baseline, r4-baseline, r5-baseline, ...).", "",
       "| mutant | property | round | what it is | caught by (first facet reported) | caught before that round's hardening |",
       "|---|---|---|---|---|---|"]
for prop, rnd, name, what, caught, before in rows:
    out.append("| %s | %s | %d | %s | %s | %s |" % (name, prop, rnd, what, caught, before))
out.append("")
tot = len(rows)
nc = sum(1 for r in rows if not r[4].startswith("NOT CAUGHT") and not r[4].startswith("deliberately"))
nd = sum(1 for r in rows if r[4].startswith("deliberately"))
out.append("Totals: %d seeded changes, %d reported by at least one check, %d deliberately not detected, %d not caught." % (tot, nc, nd, tot - nc - nd))
for r in range(2, nround + 1):
    rr = [x for x in rows if x[1] == r]
    out.append("Round %d: %d of %d caught before the round's hardening." % (r, sum(1 for x in rr if x[5] == "yes"), len(rr)))
open(os.path.join(ROOT, "MATRIX.md"), "w").write("\n".join(out) + "\n")
print("\n".join(out[-(nround + 1):]))
