#!/bin/bash
# usage: tools/run_all.sh [tier]   - runs every check on /repo, validates evidence files
tier="${1:-quick}"
cd /verif
for i in 01 02 03 04 05 06 07 08 09 10 11 12 13 14 15 16 17 18 19 20; do
  s=$(date +%s)
  ./check C$i --tier "$tier" > /tmp/run_all_C$i.log 2>&1; rc=$?
  e=$(date +%s)
  echo "C$i rc=$rc wall=$((e-s))s $(grep -c '^VIOLATION' /tmp/run_all_C$i.log) violations, $(grep -c '^KNOWN-FINDING' /tmp/run_all_C$i.log) known, $(grep -c '^INCONCLUSIVE' /tmp/run_all_C$i.log) inconclusive"
done
python3-vt - <<'PY'
import json, jsonschema, glob
sch=json.load(open('/root/.vp/EVIDENCE.schema.json'))
for f in sorted(glob.glob('/verif/evidence/C*.json')):
    try:
        jsonschema.validate(json.load(open(f)), sch)
    except Exception as e:
        print("INVALID", f, str(e)[:200])
print("evidence validated")
PY
