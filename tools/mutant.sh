#!/bin/bash
# usage: tools/mutant.sh <patch.diff> <ID> [<ID>...]   (env TIER=quick|thorough)
# Applies the patch to a scratch copy of /repo's HEAD outside /repo and /verif, runs the checks
# against it (VERIF_REPO), and removes the copy.  Evidence/replays go to a scratch dir.
patch="$(realpath "$1")"; shift
scratch="$(mktemp -d /tmp/lcv_mut.XXXXXX)"
git -C /repo archive HEAD | tar -x -C "$scratch"
( cd "$scratch" && git init -q . && git apply --whitespace=nowarn "$patch" ) || { echo "PATCH DOES NOT APPLY"; rm -rf "$scratch"; exit 3; }
rc_all=0
for id in "$@"; do
  VERIF_REPO="$scratch" LCVERIF_EVIDENCE_DIR="$scratch/.ev" LCVERIF_REPLAY_DIR="$scratch/.replays" \
    "${CHECK:-/verif/check}" "$id" --tier "${TIER:-quick}" 2>&1 | grep -E "^(VIOLATION|  facet|KNOWN-FINDING|INCONCLUSIVE|C[0-9]+ tier)" | cut -c1-420 | head -${LINES_MAX:-8}
  rc=${PIPESTATUS[0]}
  echo "== $id exit=$rc"
  [ "$rc" != 0 ] && rc_all=$rc
done
rm -rf "$scratch"
exit $rc_all
