#!/bin/bash
# usage: tools/confirm_mutant.sh <worktree> <mK> <PROP>
# Independently confirms a sub-agent's mutant on a scratch copy of /repo HEAD (outside /repo and /verif):
#   demo passes on the clean copy; patch applies; the repository's test-suite result is unchanged
#   (42 passed / same 10 failed); demo fails with the patch.  On success stores it under /verif/seeded/<PROP>-<mK>/.
wt="$1"; m="$2"; prop="$3"
src="$wt/mutants/$m"
[ -f "$src/patch.diff" ] || { echo "$prop-$m: no patch"; exit 2; }
scratch="$(mktemp -d /tmp/lcv_confirm.XXXXXX)"
git -C /repo archive HEAD | tar -x -C "$scratch"
cd "$scratch" && git init -q . 
demo="$src/demo.py"
run_demo() { ( cd "$scratch" && PYTHONPATH="$scratch" MPLBACKEND=Agg PYTHONDONTWRITEBYTECODE=1 timeout 600 /venv/bin/python -W ignore "$scratch/.demo.py" >"$scratch/.demo.$1.log" 2>&1; echo $? ); }
# demos reference their own worktree path: rewrite to the scratch copy
sed "s#$wt#$scratch#g" "$demo" > "$scratch/.demo.py"
clean_rc=$(run_demo clean)
git apply --whitespace=nowarn "$src/patch.diff" || { echo "$prop-$m: PATCH DOES NOT APPLY"; rm -rf "$scratch"; exit 3; }
( cd "$scratch" && PYTHONPATH="$scratch" MPLBACKEND=Agg PYTHONDONTWRITEBYTECODE=1 timeout 1800 /venv/bin/python -m pytest -q -rf -p no:cacheprovider --timeout=900 localcider/tests > "$scratch/.pytest.log" 2>&1 )
tests=$( tail -1 "$scratch/.pytest.log" )
failed_set=$( grep '^FAILED' "$scratch/.pytest.log" | sed 's/ - .*//' | sed 's/.*:://' | sort | tr '\n' ' ' )
expected_failed="test_general_coverage test_phaseDiagramDefinitions test_save_multiple_phasePlot test_save_multiple_phasePlot2 test_save_multiple_uverskyPlot test_save_multiple_uverskyPlot2 test_save_phaseDiagramPlot test_save_single_phasePlot test_save_single_uverskyPlot test_save_uverskyPlot "
[ "$failed_set" = "$expected_failed" ] || tests="$tests [FAILED SET DIFFERS: $failed_set]"
mut_rc=$(run_demo mutant)
ok=no
if [ "$clean_rc" = 0 ] && [ "$mut_rc" != 0 ] && echo "$tests" | grep -q "10 failed, 42 passed" && ! echo "$tests" | grep -q "DIFFERS"; then ok=yes; fi
echo "$prop-$m: demo_clean_rc=$clean_rc demo_mutant_rc=$mut_rc tests='$tests' confirmed=$ok"
if [ "$ok" = yes ]; then
  dst="/verif/seeded/$prop-$m"; mkdir -p "$dst"
  cp "$src/patch.diff" "$dst/patch.diff"; cp "$demo" "$dst/demo.py"; [ -f "$src/NOTES.md" ] && cp "$src/NOTES.md" "$dst/NOTES.md"
  python3 - "$dst" "$prop" "$m" "$tests" "$clean_rc" "$mut_rc" "$(tail -3 "$scratch/.demo.mutant.log" | tr '\n' ' ' | cut -c1-400)" <<'PY'
import json,sys,os
dst,prop,m,tests,c,mu,tail=sys.argv[1:8]
notes=open(os.path.join(dst,"NOTES.md")).read() if os.path.exists(os.path.join(dst,"NOTES.md")) else ""
meta={"property":prop,"mutant":m,"origin":"independent sub-agent given only the property text and a scratch worktree",
 "needs_to_manifest":notes[:1500],
 "confirmed":{"how":"tools/confirm_mutant.sh on a scratch copy of /repo HEAD: demo on clean copy, git apply, repository test-suite, demo with patch",
   "demo_exit_clean":int(c),"demo_exit_with_patch":int(mu),"test_suite_with_patch":tests,"demo_output_tail_with_patch":tail},
 "detected_by":None}
json.dump(meta,open(os.path.join(dst,"meta.json"),"w"),indent=1)
PY
fi
rm -rf "$scratch"
