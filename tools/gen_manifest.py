#!/usr/bin/env python3
"""Regenerates /verif/MANIFEST.json from the monitor modules (technique, rule) - run with /venv/bin/python."""
import importlib, json, sys
sys.path.insert(0, '/verif')
props = [json.loads(l) for l in open('/verif/properties.jsonl')]
checks = []
for p in props:
    pid = p['id']
    mod = importlib.import_module('lcverif.monitors.' + pid.lower())
    checks.append({
        "property_id": pid,
        "quick_cmd": "./check %s --tier quick" % pid,
        "thorough_cmd": "./check %s --tier thorough" % pid,
        "evidence_file": "/verif/evidence/%s.json" % pid,
        "replay_cmd_template": "./check %s --replay {path}" % pid,
        "engine": "lcverif",
        "level_claimed": {
            "category": "exploration",
            "text": "Runtime monitoring: the real localcider code from /repo's working tree is driven with generated, exhaustive-up-to-a-bound and hostile workloads while monitors decide the property on every observed execution (%s). Held means: held on the executions counted in the evidence file, nothing more; a run whose deciding monitors observed nothing exits inconclusive (2)." % mod.TECHNIQUE,
            "design_ref": "DESIGN.md section 4 (%s) and section 9" % pid},
        "level_note": "Trusted base: CPython 3.12 / numpy / matplotlib as installed; the reference models in lcverif/refmodel.py and the monitor's own oracle code; icontract contracts on the live Sequence class. Assumptions per run are listed in the evidence file ('assumptions'). Rule: " + mod.RULE,
        "technique": mod.TECHNIQUE,
    })
man = {
    "version": 1,
    "setup_cmd": "/venv/bin/python -m pip install -q --no-index --find-links /opt/veriftools/wheels --target /verif/.deps icontract && /venv/bin/python -c \"import sys; sys.path.insert(0,'/verif/.deps'); import icontract\"",
    "hooks": {"guard": "LOCALCIDER_VERIF",
              "enable": "LOCALCIDER_VERIF=1 in the environment of the process importing localcider (set by ./check); pure Python, nothing to build - checks import localcider from /repo's working tree (VERIF_REPO overrides)",
              "baseline_off_cmd": "cd /repo && env -u LOCALCIDER_VERIF /venv/bin/python -m pytest -ra -q -p no:cacheprovider --timeout=900 --continue-on-collection-errors",
              "source_commits": ["f8d8508"], "add_only": True},
    "engines": [{"name": "lcverif", "path": "/verif/lcverif", "serves_properties": [p['id'] for p in props],
                 "kind_free_text": "runtime-monitoring harness: shard subprocesses drive the real library under icontract contracts; per-property monitors (reference models, relational/metamorphic oracles, sequential models, pristine-fork references, RNG tapes, shadow WL automaton, matplotlib artist inspection); shared history salt; known-finding matcher"}],
    "checks": checks,
    "notes": "Exit codes: 0 held on everything observed (KNOWN-FINDING lines allowed), 1 VIOLATION, 2 INCONCLUSIVE (deciding monitor observed nothing / shard died / watchdog / harness error). Known findings: /verif/known_findings.json. Seeded mutants and which checks catch them: /verif/seeded/ (MATRIX.md) and DESIGN.md section 9. VERIF_SEED seeds every random choice; VERIF_REPO selects the tree (default /repo).",
    "not_applicable": []
}
json.dump(man, open('/verif/MANIFEST.json', 'w'), indent=1)
print("MANIFEST.json written:", len(checks), "checks")
