#!/bin/bash
# usage: tools/roundN.sh <round> <NN>   - confirm round-<round> mutants of property C<NN> (worktree /tmp/wt<round>_C<NN>),
#        store them as seeded/C<NN>-r<round>mK, then run the own-property check from $CHECK (default /verif/check)
r="$1"; nn="$2"; wt=/tmp/wt${r}_C$nn
for m in m1 m2 m3; do
  [ -f "$wt/mutants/$m/patch.diff" ] || continue
  mkdir -p "$wt/mutants/r${r}$m"; cp "$wt/mutants/$m/patch.diff" "$wt/mutants/$m/demo.py" "$wt/mutants/$m/NOTES.md" "$wt/mutants/r${r}$m/" 2>/dev/null
  /verif/tools/confirm_mutant.sh "$wt" "r${r}$m" "C$nn"
done
