#!/usr/bin/env python3
"""usage: tools/record_matrix.py <matrix.tsv>...  - writes which checks caught each seeded mutant into seeded/*/meta.json"""
import json, os, sys, collections
res = collections.defaultdict(dict)
for path in sys.argv[1:]:
    for line in open(path):
        parts = line.rstrip("\n").split("\t")
        if len(parts) < 3:
            continue
        name, chk, rc = parts[0], parts[1], parts[2]
        facet = parts[3] if len(parts) > 3 else ""
        res[name][chk] = {"exit": int(rc) if rc.isdigit() else None, "first_facet": facet}
for name, by in sorted(res.items()):
    mp = os.path.join("/verif/seeded", name, "meta.json")
    meta = json.load(open(mp))
    cur = meta.get("detected_by") or {}
    if not isinstance(cur, dict):
        cur = {}
    cur.update(by)
    meta["detected_by"] = cur
    meta["detected"] = any(v.get("exit") == 1 for v in cur.values())
    meta["how_run"] = "tools/mutant.sh seeded/%s/patch.diff <ID>  (scratch copy of /repo HEAD + patch, VERIF_REPO=<copy> ./check <ID> --tier quick)" % name
    json.dump(meta, open(mp, "w"), indent=1)
print("recorded", len(res))
