#!/bin/bash
# usage: tools/matrix.sh <out.tsv> [mutant-dir ...]   - every seeded mutant vs its own property's check (and extra checks listed in $EXTRA)
out="$1"; shift
dirs="$@"; [ -z "$dirs" ] && dirs=$(ls -d /verif/seeded/*/)
: > "$out"
for d in $dirs; do
  name=$(basename "$d"); prop=${name%%-*}
  for id in $prop $EXTRA; do
    res=$(LINES_MAX=3 /verif/tools/mutant.sh "$d/patch.diff" "$id" 2>&1)
    rc=$(echo "$res" | grep -o "exit=[0-9]*" | tail -1 | cut -d= -f2)
    facet=$(echo "$res" | grep -m1 "facet=" | sed 's/.*facet=\([^ ]*\).*/\1/')
    printf "%s\t%s\t%s\t%s\n" "$name" "$id" "$rc" "$facet" >> "$out"
  done
done
